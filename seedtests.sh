#!/bin/bash
# usage: seedtests.sh <seeded-dir> <pkg> [pkg...]   (pkg like . or ./pubsub/)
# Re-runs the existing tests of the given packages on /repo + the seeded patch, up to 3 times, and lists the tests
# from BASELINE.json's stable_pass set that failed in every run (none = the change passes the existing suite).
set -u
export GOFLAGS=-mod=mod GOPROXY=off GOSUMDB=off GOTOOLCHAIN=local
N=$1; shift
R=/tmp/seedtests-$$
git -C /repo worktree add -q --detach $R HEAD || exit 2
git -C $R apply /verif/seeded/$N/patch.diff || { git -C /repo worktree remove --force $R; exit 2; }
for i in 1 2 3; do (cd $R && go test -json -vet=off -count=1 -timeout 20m "$@" > /tmp/seedtests-$$-$i.json 2>/dev/null); done
python3 - $$ <<'P'
import json,sys
pid=sys.argv[1]
stable=set(json.load(open('/root/.vp/BASELINE.json'))['stable_pass'])
always=None
for i in (1,2,3):
    failed=set()
    for l in open('/tmp/seedtests-%s-%d.json'%(pid,i)):
        try: e=json.loads(l)
        except Exception: continue
        if e.get('Action')=='fail' and e.get('Test'):
            k=e['Package']+'::'+e['Test']
            if k in stable: failed.add(k)
    print('run',i,'stable tests failed:',len(failed))
    always=failed if always is None else always&failed
print('FAILED IN EVERY RUN:',sorted(always))
P
rm -f /tmp/seedtests-$$-*.json
git -C /repo worktree remove --force $R
