#!/bin/bash
# regression over every seeded change: each must still be reported by the quick tier of the property it breaks.
# usage: seedall.sh [name-pattern]
cd "$(dirname "$0")"
ok=0; bad=0
for d in seeded/*${1:-}*/; do
  n=$(basename $d)
  p=$(python3 -c "import json;print(json.load(open('$d/meta.json'))['breaks_property'])")
  if python3 -c "import json,sys;sys.exit(0 if 'superseded' in json.load(open('$d/meta.json')) else 1)"; then echo "superseded  $n ($p)"; continue; fi
  if grep -q "MISSED by the .* check and left so" $d/meta.json; then echo "left-to-other-check  $n ($p)"; continue; fi
  out=$(VERIF_MAX_MINIMISE=1 VERIF_MIN_SEC=10 SEEDCHECK_TAIL=40 ./seedcheck.sh $n $p 2>&1)
  if echo "$out" | grep -q "^VIOLATION property=$p "; then echo "caught  $n ($p)"; ok=$((ok+1)); else echo "MISSED  $n ($p)"; echo "$out" | tail -3; bad=$((bad+1)); fi
done
echo "seedall: $ok caught, $bad missed"
[ $bad -eq 0 ]
