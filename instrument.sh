#!/bin/bash
# usage: instrument.sh <scratch-dir>   -> <scratch-dir>/fun is an instrumented copy of /repo's working tree
set -euo pipefail
export GOFLAGS=-mod=mod GOPROXY=off GOSUMDB=off GOTOOLCHAIN=local
S="$1"
mkdir -p "$S"
rsync -a --delete --exclude .git /repo/ "$S/fun/"
cat >> "$S/fun/go.mod" <<'EOM'

require verif/simrt v0.0.0
replace verif/simrt => /verif/simrt
EOM
PATH=/opt/veriftools/go1.26.8/bin:$PATH /verif/bin/siminstr -dir "$S/fun"
