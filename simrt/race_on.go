//go:build race

package simrt

import "runtime"

// RaceBuild reports whether the binary was built with -race.
const RaceBuild = true

//go:norace
func raceDisable() { runtime.RaceDisable() }

//go:norace
func raceEnable() { runtime.RaceEnable() }
