// Package simrt is the run-time half of the deterministic simulator: the
// instrumented copy of tychoish/fun calls into it at every synchronisation
// operation. Inside a simulation exactly one task executes library code at a
// time and every decision comes from the tape; outside a simulation every
// wrapper degrades to the plain operation.
//
// Race mode: every simrt entry point runs between runtime.RaceDisable and
// runtime.RaceEnable and every function is go:norace, so ThreadSanitizer sees
// none of the scheduler's own hand-offs; the real operation (TryLock, channel
// op, once.Do, go statement) is executed in a RaceEnable window so the
// happens-before edges the program itself creates stay visible.
package simrt

import (
	"fmt"
	"runtime"
	"strconv"
	"strings"
	"sync/atomic"
	"time"
	"unsafe"
)

const (
	stRunning  int32 = iota // released (executing, or blocked in a real operation)
	stEnabled               // parked at a gate, schedulable
	stDisabled              // parked, waiting for a sim mutex / cond / once / step
	stQuiesce               // parked until the rest of the system is quiescent
	stExited
)

// Strategy selects how the scheduler draws fresh choices in search mode.
type Strategy struct {
	Kind   int     // 0 uniform, 1 sticky, 2 PCT
	Sticky float64 // probability of continuing the current task (Kind 1)
	Depth  int     // number of priority change points (Kind 2)
	Horiz  int     // expected number of steps (Kind 2)
}

// Config configures one run.
type Config struct {
	Tape      *Tape
	MaxSteps  int
	Strategy  Strategy
	Trace     bool
	CheckGID  bool
	ClockJump int    // if >0: 1-in-ClockJump chance per step of advancing the clock while tasks are enabled
	Wait      func() // synctest.Wait, injected by the harness
}

// Task is one simulated goroutine.
type Task struct {
	idx     int
	ID      string // hierarchical spawn path
	Name    string // spawn site or harness name
	Lib     bool   // spawned by a go statement inside the library
	gate    chan struct{}
	state   atomic.Int32
	site    string // where parked
	blocked string // real blocking operation in progress
	gid     uint64
	nchild  int
	prio    int

	waitMu   unsafe.Pointer
	waitCond unsafe.Pointer
	condSeq  uint64
	waitOnce unsafe.Pointer
	inOnce   []unsafe.Pointer
	waitStep int

	PanicVal   any
	PanicStack string
	panicked   bool
	steps      int
}

// TraceStep is one scheduling decision.
type TraceStep struct {
	Step int    `json:"step"`
	Task string `json:"task"`
	Name string `json:"name,omitempty"`
	Site string `json:"site"`
}

// TaskInfo describes a task at the end of the run.
type TaskInfo struct {
	ID      string `json:"id"`
	Name    string `json:"name"`
	Lib     bool   `json:"lib"`
	State   string `json:"state"`
	Site    string `json:"site,omitempty"`
	Panic   string `json:"panic,omitempty"`
	Stack   string `json:"stack,omitempty"`
	Steps   int    `json:"steps"`
	Blocked string `json:"blocked,omitempty"`
}

// Result is what a run produced.
type Result struct {
	Steps      int
	Quiescent  bool // ended because nothing could run any more
	Budget     bool // ended because MaxSteps was reached
	Digest     uint64
	Trace      []TraceStep
	Notes      []string
	Tasks      []TaskInfo
	Strays     int
	StrayInfo  string
	SimTime    time.Duration
	Switches   int
	ClockJumps int
	Quiesces   int
	// Preempt counts, per kind of synchronisation site, how often the
	// scheduler released a different task while the previously running task
	// was parked in front of such an operation (e.g. "condwait": another
	// task ran between a waiter's predicate check and its cond.Wait).
	Preempt map[string]int
}

// Sim is one simulation.
type Sim struct {
	cfg   Config
	tape  *Tape
	tasks []*Task
	cur   atomic.Pointer[Task]
	last  *Task
	steps int

	condSeq    uint64
	digest     uint64
	trace      []TraceStep
	notes      []string
	strays     atomic.Int32
	finalizers atomic.Int32
	strayMsg   atomic.Pointer[string]
	switches   int
	jumps      int
	quiesces   int
	start      time.Time
	pctChg     []int
	lowPrio    int
	preempt    map[string]int
	smaps      []smapEntry
	smapSeq    uint64
}

var active atomic.Pointer[Sim]

// Active reports whether a simulation is running in this process.
//
//go:norace
func Active() bool {
	raceDisable()
	r := active.Load() != nil
	raceEnable()
	return r
}

//go:norace
func curGID() uint64 {
	var buf [40]byte
	n := runtime.Stack(buf[:], false)
	// "goroutine 123 ["
	var id uint64
	for i := len("goroutine "); i < n; i++ {
		c := buf[i]
		if c < '0' || c > '9' {
			break
		}
		id = id*10 + uint64(c-'0')
	}
	return id
}

// enter disables race tracking and returns the simulation and the calling
// task, or (nil,nil) with race tracking re-enabled when the caller is not a
// simulated task.
//
//go:norace
func enter() (*Sim, *Task) {
	raceDisable()
	s := active.Load()
	if s == nil {
		raceEnable()
		return nil, nil
	}
	t := s.cur.Load()
	if t == nil || (s.cfg.CheckGID && t.gid != curGID()) {
		s.stray()
		raceEnable()
		return nil, nil
	}
	return s, t
}

//go:norace
func (s *Sim) stray() {
	buf := make([]byte, 4096)
	n := runtime.Stack(buf, false)
	msg := string(buf[:n])
	if strings.Contains(msg, "runtime.runFinalizers") {
		// finalizers (adt.Pool.Make) run on the runtime's own goroutine,
		// outside the bubble: they pass through unsimulated.
		s.finalizers.Add(1)
		return
	}
	if s.strays.Add(1) == 1 {
		s.strayMsg.Store(&msg)
	}
}

//go:norace
func (t *Task) park(st int32, site string) {
	t.site = site
	t.state.Store(st)
	<-t.gate
}

// post re-parks a task that was woken by the runtime while another task is
// current.
//
//go:norace
func (s *Sim) post(t *Task) {
	t.blocked = ""
	if s.cur.Load() == t {
		return
	}
	t.park(stEnabled, "wake@"+t.site)
}

// Gate is a plain scheduling point.
//
//go:norace
func Gate(site string) {
	s, t := enter()
	if s == nil {
		return
	}
	t.park(stEnabled, site)
	raceEnable()
}

// G is a scheduling point in expression position: it gates and returns p.
//
//go:norace
func G[T any](site string, p T) T {
	Gate(site)
	return p
}

// Pre is the gate in front of a real blocking operation; Post follows it.
//
//go:norace
func Pre(site string) *Task {
	s, t := enter()
	if s == nil {
		return nil
	}
	t.park(stEnabled, site)
	t.blocked = site
	raceEnable()
	return t
}

// Post is the gate after a real blocking operation.
//
//go:norace
func Post(t *Task) {
	if t == nil {
		return
	}
	raceDisable()
	s := active.Load()
	if s != nil {
		s.post(t)
	}
	raceEnable()
}

// Go starts a library goroutine as a task.
//
//go:norace
func Go(site string, fn func()) {
	s, t := enter()
	if s == nil {
		go fn()
		return
	}
	c := s.newTask(t, site, true)
	raceEnable()
	go c.main(s, fn)
}

// Spawn starts a harness task.
//
//go:norace
func Spawn(name string, fn func()) {
	s, t := enter()
	if s == nil {
		panic("simrt.Spawn outside a simulation")
	}
	c := s.newTask(t, name, false)
	raceEnable()
	go c.main(s, fn)
}

//go:norace
func (s *Sim) newTask(parent *Task, name string, lib bool) *Task {
	c := &Task{idx: len(s.tasks), Name: name, Lib: lib, gate: make(chan struct{})}
	if parent == nil {
		c.ID = "0"
	} else {
		c.ID = parent.ID + "." + strconv.Itoa(parent.nchild)
		parent.nchild++
	}
	c.site = "start"
	c.state.Store(stEnabled)
	if s.cfg.Strategy.Kind == 2 {
		// PCT: a fresh random priority above every "lowered" one
		c.prio = 1000 + s.tape.rng.intn(1000000)
	}
	s.tasks = append(s.tasks, c)
	return c
}

//go:norace
func (c *Task) main(s *Sim, fn func()) {
	raceDisable()
	c.gid = curGID()
	<-c.gate
	raceEnable()
	defer c.finish()
	fn()
}

//go:norace
func (c *Task) finish() {
	r := recover()
	raceDisable()
	if r != nil {
		c.panicked = true
		c.PanicVal = r
		buf := make([]byte, 16384)
		n := runtime.Stack(buf, false)
		c.PanicStack = string(buf[:n])
	}
	c.site = "exit"
	c.state.Store(stExited)
	raceEnable()
}

// Choose draws a workload decision in [0,n) from the tape.
//
//go:norace
func Choose(n int) int {
	raceDisable()
	s := active.Load()
	if s == nil {
		raceEnable()
		panic("simrt.Choose outside a simulation")
	}
	v := s.tape.draw(n, nil)
	raceEnable()
	return v
}

// ChooseBiased draws 0 with probability p0 in search mode, else uniformly
// from 1..n-1.
//
//go:norace
func ChooseBiased(n int, p0 float64) int {
	raceDisable()
	s := active.Load()
	if s == nil {
		raceEnable()
		panic("simrt.ChooseBiased outside a simulation")
	}
	v := s.tape.draw(n, func(r *rng) int {
		if r.float() < p0 {
			return 0
		}
		return 1 + r.intn(n-1)
	})
	raceEnable()
	return v
}

// Stamp returns the current global step number (a total order on events).
//
//go:norace
func Stamp() int {
	raceDisable()
	s := active.Load()
	v := 0
	if s != nil {
		v = s.steps
	}
	raceEnable()
	return v
}

// Note appends a line to the trace (and the digest).
//
//go:norace
func Note(msg string) {
	raceDisable()
	s := active.Load()
	if s != nil {
		s.mix(msg)
		if s.cfg.Trace {
			s.notes = append(s.notes, "@"+strconv.Itoa(s.steps)+" "+msg)
			s.trace = append(s.trace, TraceStep{Step: s.steps, Task: "-", Site: msg})
		}
	}
	raceEnable()
}

// Yield is a harness-visible scheduling point.
func Yield() { Gate("yield") }

// Quiesce parks the caller until nothing else in the system can run (no task
// enabled, no timer pending within the idle horizon). It returns true when
// resumed at quiescence.
//
//go:norace
func Quiesce() bool {
	s, t := enter()
	if s == nil {
		return false
	}
	t.park(stQuiesce, "quiesce")
	raceEnable()
	return true
}

// WaitStep parks the caller until the global step counter reaches n (or the
// system is otherwise idle).
//
//go:norace
func WaitStep(n int) {
	s, t := enter()
	if s == nil {
		return
	}
	if s.steps < n {
		t.waitStep = n
		t.park(stDisabled, "waitstep")
	}
	raceEnable()
}

// Self returns the calling task's id (harness use).
//
//go:norace
func Self() string {
	s, t := enter()
	if s == nil {
		return ""
	}
	id := t.ID
	raceEnable()
	return id
}

//go:norace
func (s *Sim) mix(str string) {
	h := s.digest
	for i := 0; i < len(str); i++ {
		h ^= uint64(str[i])
		h *= 1099511628211
	}
	h ^= 0xff
	h *= 1099511628211
	s.digest = h
}

// New creates a simulation. Run must be called from the root goroutine of a
// synctest bubble.
func New(cfg Config) *Sim {
	if cfg.MaxSteps <= 0 {
		cfg.MaxSteps = 20000
	}
	s := &Sim{cfg: cfg, tape: cfg.Tape, digest: 14695981039346656037, preempt: map[string]int{}}
	return s
}

//go:norace
func (s *Sim) enabled(buf []*Task) []*Task {
	buf = buf[:0]
	if s.last != nil && s.last.state.Load() == stEnabled {
		buf = append(buf, s.last)
	}
	for _, t := range s.tasks {
		if t != s.last && t.state.Load() == stEnabled {
			buf = append(buf, t)
		}
	}
	return buf
}

//go:norace
func (s *Sim) wait() {
	raceEnable()
	s.cfg.Wait()
	raceDisable()
}

//go:norace
func (s *Sim) pick(en []*Task) *Task {
	n := len(en)
	if n == 1 {
		return en[0]
	}
	st := s.cfg.Strategy
	fair := s.steps > s.cfg.MaxSteps/2
	var gen func(r *rng) int
	switch {
	case fair || st.Kind == 0:
		gen = nil
	case st.Kind == 1:
		hasCur := en[0] == s.last
		gen = func(r *rng) int {
			if hasCur && r.float() < st.Sticky {
				return 0
			}
			return r.intn(n)
		}
	case st.Kind == 2:
		gen = func(r *rng) int {
			best := 0
			for i := range en {
				if en[i].prio > en[best].prio {
					best = i
				}
			}
			return best
		}
	}
	return en[s.tape.draw(n, gen)]
}

// Run executes root as task "0" and schedules until quiescence or budget.
//
//go:norace
func (s *Sim) Run(root func()) *Result {
	raceDisable()
	if active.Load() != nil {
		raceEnable()
		panic("simrt: nested simulation")
	}
	s.start = time.Now()
	if s.cfg.Strategy.Kind == 2 {
		h := s.cfg.Strategy.Horiz
		if h <= 0 {
			h = 200
		}
		for i := 0; i < s.cfg.Strategy.Depth; i++ {
			s.pctChg = append(s.pctChg, 1+s.tape.rng.intn(h))
		}
		s.lowPrio = 999
	}
	rt := s.newTask(nil, "root", false)
	active.Store(s)
	raceEnable()
	go rt.main(s, root)
	raceDisable()

	res := &Result{}
	var buf []*Task
	for {
		s.wait()
		// step waiters whose time has come
		for _, t := range s.tasks {
			if t.waitStep > 0 && t.state.Load() == stDisabled && s.steps >= t.waitStep {
				t.waitStep = 0
				t.state.Store(stEnabled)
			}
		}
		buf = s.enabled(buf)
		if len(buf) == 0 {
			s.cur.Store(nil)
			if s.advanceClock() {
				continue
			}
			if s.wakeStepWaiter() {
				continue
			}
			if s.wakeQuiesce() {
				continue
			}
			res.Quiescent = true
			break
		}
		if s.steps >= s.cfg.MaxSteps {
			res.Budget = true
			break
		}
		if s.cfg.ClockJump > 0 && s.tape.draw(2, func(r *rng) int {
			if r.intn(s.cfg.ClockJump) == 0 {
				return 1
			}
			return 0
		}) == 1 {
			s.cur.Store(nil)
			s.jumps++
			s.sleep(time.Duration(1+s.tape.draw(4, nil)) * 5 * time.Millisecond)
			s.mix("clockjump")
			if s.cfg.Trace {
				s.trace = append(s.trace, TraceStep{Step: s.steps, Task: "-", Site: "clock-jump"})
			}
			continue
		}
		t := s.pick(buf)
		s.steps++
		t.steps++
		if t != s.last {
			s.switches++
			if s.last != nil && s.last.state.Load() == stEnabled {
				s.preempt[siteKind(s.last.site)]++
			}
		}
		for _, c := range s.pctChg {
			if c == s.steps {
				s.lowPrio--
				t.prio = s.lowPrio
			}
		}
		s.mix(t.ID)
		s.mix(t.site)
		if s.cfg.Trace {
			s.trace = append(s.trace, TraceStep{Step: s.steps, Task: t.ID, Name: t.Name, Site: t.site})
		}
		s.last = t
		s.cur.Store(t)
		t.state.Store(stRunning)
		t.gate <- struct{}{}
	}
	s.cur.Store(nil)
	active.Store(nil)
	raceEnable()
	res.Steps = s.steps
	res.Digest = s.digest
	res.Trace = s.trace
	res.Notes = s.notes
	res.Switches = s.switches
	res.ClockJumps = s.jumps
	res.Quiesces = s.quiesces
	res.Preempt = s.preempt
	res.SimTime = time.Since(s.start)
	res.Strays = int(s.strays.Load())
	if p := s.strayMsg.Load(); p != nil {
		res.StrayInfo = *p
	}
	for _, t := range s.tasks {
		ti := TaskInfo{ID: t.ID, Name: t.Name, Lib: t.Lib, Site: t.site, Steps: t.steps, Blocked: t.blocked}
		switch t.state.Load() {
		case stRunning:
			ti.State = "blocked" // released and not back at a gate: blocked in a real operation
		case stEnabled:
			ti.State = "enabled"
		case stDisabled:
			ti.State = "waiting"
		case stQuiesce:
			ti.State = "quiesce"
		case stExited:
			ti.State = "exited"
		}
		if t.panicked {
			ti.Panic = fmt.Sprint(t.PanicVal)
			ti.Stack = t.PanicStack
		}
		res.Tasks = append(res.Tasks, ti)
	}
	return res
}

//go:norace
func (s *Sim) sleep(d time.Duration) {
	raceEnable()
	time.Sleep(d)
	s.cfg.Wait()
	raceDisable()
}

// advanceClock lets pending timers fire. It reports whether any task became
// enabled.
//
//go:norace
func (s *Sim) advanceClock() bool {
	// anything blocked in a real operation that a timer could wake?
	any := false
	for _, t := range s.tasks {
		if t.state.Load() == stRunning {
			any = true
			break
		}
	}
	if !any {
		return false
	}
	for d := time.Millisecond; d <= 10000*time.Second; d *= 10 {
		s.sleep(d)
		for _, t := range s.tasks {
			if t.state.Load() == stEnabled {
				s.mix("clock")
				return true
			}
		}
	}
	return false
}

//go:norace
func (s *Sim) wakeStepWaiter() bool {
	var best *Task
	for _, t := range s.tasks {
		if t.waitStep > 0 && t.state.Load() == stDisabled {
			if best == nil || t.waitStep < best.waitStep {
				best = t
			}
		}
	}
	if best == nil {
		return false
	}
	best.waitStep = 0
	best.state.Store(stEnabled)
	return true
}

//go:norace
func (s *Sim) wakeQuiesce() bool {
	woke := false
	for _, t := range s.tasks {
		if t.state.Load() == stQuiesce {
			t.state.Store(stEnabled)
			woke = true
		}
	}
	if woke {
		s.quiesces++
		s.mix("quiesce")
	}
	return woke
}

// SiteOf returns where task id is currently parked or blocked (harness use,
// meaningful at quiescence).
//
//go:norace
func SiteOf(id string) string {
	raceDisable()
	defer raceEnable()
	s := active.Load()
	if s == nil {
		return ""
	}
	for _, t := range s.tasks {
		if t.ID == id {
			if t.state.Load() == stRunning && t.blocked != "" {
				return t.blocked
			}
			return t.site
		}
	}
	return ""
}

// LiveLibTasks returns "name@site" for every library-spawned task that has
// not exited (harness use, meaningful at quiescence).
//
//go:norace
func LiveLibTasks() []string {
	raceDisable()
	defer raceEnable()
	s := active.Load()
	if s == nil {
		return nil
	}
	var out []string
	for _, t := range s.tasks {
		if t.Lib && t.state.Load() != stExited {
			site := t.site
			if t.state.Load() == stRunning && t.blocked != "" {
				site = t.blocked
			}
			out = append(out, t.Name+"@"+site)
		}
	}
	return out
}

// LiveLibTaskIDs returns the hierarchical ids ("parent.k") of the
// library-spawned tasks that have not exited, in the order of LiveLibTasks.
//
//go:norace
func LiveLibTaskIDs() []string {
	raceDisable()
	defer raceEnable()
	s := active.Load()
	if s == nil {
		return nil
	}
	var out []string
	for _, t := range s.tasks {
		if t.Lib && t.state.Load() != stExited {
			out = append(out, t.ID)
		}
	}
	return out
}

// Exited reports whether task id has exited (harness use).
//
//go:norace
func Exited(id string) bool {
	raceDisable()
	defer raceEnable()
	s := active.Load()
	if s == nil {
		return false
	}
	for _, t := range s.tasks {
		if t.ID == id {
			return t.state.Load() == stExited
		}
	}
	return false
}

// siteKind extracts "lock" from "pkg.Func:lock#3" ("wake" for post-gates).
//
//go:norace
func siteKind(site string) string {
	if strings.HasPrefix(site, "wake@") {
		return "wake"
	}
	i := strings.LastIndexByte(site, ':')
	j := strings.LastIndexByte(site, '#')
	if i < 0 || j < i {
		return site
	}
	return site[i+1 : j]
}
