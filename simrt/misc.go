package simrt

import (
	"fmt"
	"reflect"
	"sort"
	"sync"
	"time"
	"unsafe"
)

// MapEntry is one key/value pair of a snapshot taken by MapOrder.
type MapEntry[K comparable, V any] struct {
	K K
	V V
}

// MapOrder replaces `range m` over a builtin map: it returns a snapshot of
// the entries in a deterministic order (sorted where the key kind is
// ordered), rotated by a tape value inside a simulation.
//
//go:norace
func MapOrder[M ~map[K]V, K comparable, V any](m M) []MapEntry[K, V] {
	out := make([]MapEntry[K, V], 0, len(m))
	for k, v := range m {
		out = append(out, MapEntry[K, V]{k, v})
	}
	if len(out) < 2 || !Active() {
		return out
	}
	var zk K
	less := keyLess(reflect.TypeOf(&zk).Elem())
	if less == nil {
		// not orderable: fall back to the printed form; pointer-like keys
		// make this nondeterministic, which the harness avoids by choosing
		// key types.
		sort.SliceStable(out, func(i, j int) bool { return fmt.Sprint(out[i].K) < fmt.Sprint(out[j].K) })
	} else {
		sort.SliceStable(out, func(i, j int) bool { return less(reflect.ValueOf(out[i].K), reflect.ValueOf(out[j].K)) })
	}
	r := Choose(len(out))
	if r > 0 {
		rot := make([]MapEntry[K, V], 0, len(out))
		rot = append(rot, out[r:]...)
		rot = append(rot, out[:r]...)
		out = rot
	}
	return out
}

func keyLess(t reflect.Type) func(a, b reflect.Value) bool {
	switch t.Kind() {
	case reflect.Int, reflect.Int8, reflect.Int16, reflect.Int32, reflect.Int64:
		return func(a, b reflect.Value) bool { return a.Int() < b.Int() }
	case reflect.Uint, reflect.Uint8, reflect.Uint16, reflect.Uint32, reflect.Uint64, reflect.Uintptr:
		return func(a, b reflect.Value) bool { return a.Uint() < b.Uint() }
	case reflect.String:
		return func(a, b reflect.Value) bool { return a.String() < b.String() }
	case reflect.Float32, reflect.Float64:
		return func(a, b reflect.Value) bool { return a.Float() < b.Float() }
	}
	return nil
}

type smapEntry struct {
	m   unsafe.Pointer
	key any
	seq uint64
}

//go:norace
func (s *Sim) smapNote(m *sync.Map, key any) {
	p := unsafe.Pointer(m)
	for i := range s.smaps {
		if s.smaps[i].m == p && s.smaps[i].key == key {
			return
		}
	}
	s.smapSeq++
	s.smaps = append(s.smaps, smapEntry{p, key, s.smapSeq})
}

//go:norace
func (s *Sim) smapSeqOf(m *sync.Map, key any) uint64 {
	p := unsafe.Pointer(m)
	for i := range s.smaps {
		if s.smaps[i].m == p && s.smaps[i].key == key {
			return s.smaps[i].seq
		}
	}
	return 1 << 62
}

// SM gates and records the key's first-insertion sequence, then returns m so
// that the original method call proceeds: simrt.SM(site, &m, k).Store(k, v).
//
//go:norace
func SM(site string, m *sync.Map, key any) *sync.Map {
	s, t := enter()
	if s == nil {
		return m
	}
	t.park(stEnabled, site)
	s.smapNote(m, key)
	raceEnable()
	return m
}

// SMRange is the simulated m.Range(f): a snapshot in first-insertion order,
// rotated by a tape value.
//
//go:norace
func SMRange(m *sync.Map, f func(k, v any) bool, site string) {
	s, t := enter()
	if s == nil {
		m.Range(f)
		return
	}
	t.park(stEnabled, site)
	raceEnable()
	type kv struct {
		k, v any
		seq  uint64
	}
	var all []kv
	m.Range(func(k, v any) bool { all = append(all, kv{k, v, 0}); return true })
	raceDisable()
	for i := range all {
		all[i].seq = s.smapSeqOf(m, all[i].k)
	}
	raceEnable()
	sort.SliceStable(all, func(i, j int) bool { return all[i].seq < all[j].seq })
	r := 0
	if len(all) > 1 {
		r = Choose(len(all))
	}
	for i := range all {
		e := all[(i+r)%len(all)]
		if !f(e.k, e.v) {
			return
		}
	}
}

// Sleep is the simulated time.Sleep.
//
//go:norace
func Sleep(site string, d time.Duration) {
	t := Pre(site)
	time.Sleep(d)
	Post(t)
}

// PoolGet is the simulated (*sync.Pool).Get: inside a simulation the pool
// always behaves as if it were empty (which sync.Pool is always allowed to
// be), because its per-P caches would otherwise make the number of New calls
// depend on the OS scheduler.
//
//go:norace
func PoolGet(p *sync.Pool, site string) any {
	if !Active() {
		return p.Get()
	}
	if p.New != nil {
		return p.New()
	}
	return nil
}

// PoolPut is the simulated (*sync.Pool).Put (dropped inside a simulation).
//
//go:norace
func PoolPut(p *sync.Pool, x any, site string) {
	if !Active() {
		p.Put(x)
	}
}
