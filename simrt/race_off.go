//go:build !race

package simrt

// RaceBuild reports whether the binary was built with -race.
const RaceBuild = false

func raceDisable() {}
func raceEnable()  {}
