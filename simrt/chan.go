package simrt

// Recv is the simulated <-c.
//
//go:norace
func Recv[T any](site string, c <-chan T) T {
	t := Pre(site)
	v := <-c
	Post(t)
	return v
}

// Recv2 is the simulated v, ok := <-c.
//
//go:norace
func Recv2[T any](site string, c <-chan T) (T, bool) {
	t := Pre(site)
	v, ok := <-c
	Post(t)
	return v, ok
}

// Sel is the state of one rewritten select statement.
type Sel struct {
	s     *Sim
	t     *Task
	site  string
	order [16]int8
	n     int
	pos   int
}

// SelBegin gates, draws the probe order and returns the select state (nil
// outside a simulation).
//
//go:norace
func SelBegin(site string, n int) *Sel {
	s, t := enter()
	if s == nil {
		return nil
	}
	if n > 16 {
		raceEnable()
		panic("simrt: select with more than 16 cases")
	}
	t.park(stEnabled, site)
	sel := &Sel{s: s, t: t, site: site, n: n}
	for i := 0; i < n; i++ {
		sel.order[i] = int8(i)
	}
	// Fisher-Yates from the tape; value 0 keeps the source order.
	for i := 0; i < n-1; i++ {
		j := i + s.tape.draw(n-i, nil)
		sel.order[i], sel.order[j] = sel.order[j], sel.order[i]
	}
	raceEnable()
	return sel
}

// R masks a receive case: outside a simulation, or when case i is the one
// being probed, it returns c, else nil.
//
//go:norace
func R[T any](sel *Sel, i int, c <-chan T) <-chan T {
	if sel == nil || (sel.pos < sel.n && int(sel.order[sel.pos]) == i) {
		return c
	}
	return nil
}

// S masks a send case.
//
//go:norace
func S[T any](sel *Sel, i int, c chan<- T) chan<- T {
	if sel == nil || (sel.pos < sel.n && int(sel.order[sel.pos]) == i) {
		return c
	}
	return nil
}

// SelNext advances to the next probe; false when all cases were probed.
//
//go:norace
func SelNext(sel *Sel) bool {
	if sel == nil {
		return false
	}
	sel.pos++
	return sel.pos < sel.n
}

// SelBlock announces that the task is about to block in the real select.
//
//go:norace
func SelBlock(sel *Sel) {
	if sel == nil {
		return
	}
	sel.t.blocked = sel.site
}

// SelWake is the post-gate of the blocking copy.
//
//go:norace
func SelWake(sel *Sel) {
	if sel == nil {
		return
	}
	Post(sel.t)
}

// Zero returns the zero value of a channel's element type (used to declare
// the hoisted receive variables of a rewritten select).
func Zero[T any](c <-chan T) (z T) { return }

// ZeroS is Zero for the send side.
func ZeroS[T any](c chan<- T) (z T) { return }
