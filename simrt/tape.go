package simrt

// Tape is the single source of every decision of a run. In search mode
// values past the end are drawn from the PRNG and appended; in replay mode
// the tape is read only and a missing value is 0.
type Tape struct {
	Vals   []int32
	pos    int
	replay bool
	rng    rng
}

// splitmix64: tiny, seedable, no allocation, no locks.
type rng struct{ s uint64 }

//go:norace
func (r *rng) next() uint64 {
	r.s += 0x9e3779b97f4a7c15
	z := r.s
	z = (z ^ (z >> 30)) * 0xbf58476d1ce4e5b9
	z = (z ^ (z >> 27)) * 0x94d049bb133111eb
	return z ^ (z >> 31)
}

//go:norace
func (r *rng) intn(n int) int {
	if n <= 1 {
		return 0
	}
	return int(r.next() % uint64(n))
}

//go:norace
func (r *rng) float() float64 { return float64(r.next()>>11) / float64(1<<53) }

// NewSearchTape returns a tape that extends itself from the seed.
func NewSearchTape(seed uint64) *Tape { return &Tape{rng: rng{s: seed*0x9e3779b97f4a7c15 + 0x1234567}} }

// NewReplayTape returns a read-only tape.
func NewReplayTape(vals []int32) *Tape {
	cp := make([]int32, len(vals))
	copy(cp, vals)
	return &Tape{Vals: cp, replay: true}
}

// draw returns the next tape value in [0,n). gen is used in search mode to
// produce a fresh value (already in range).
//
//go:norace
func (t *Tape) draw(n int, gen func(r *rng) int) int {
	if n <= 1 {
		return 0
	}
	if t.pos < len(t.Vals) {
		v := int(t.Vals[t.pos])
		t.pos++
		if v < 0 {
			v = 0
		}
		return v % n
	}
	if t.replay {
		t.pos++
		return 0
	}
	v := 0
	if gen != nil {
		v = gen(&t.rng)
	} else {
		v = t.rng.intn(n)
	}
	t.Vals = append(t.Vals, int32(v))
	t.pos++
	return v
}

// Used returns the prefix of the tape consumed so far.
//
//go:norace
func (t *Tape) Used() []int32 {
	n := t.pos
	if n > len(t.Vals) {
		n = len(t.Vals)
	}
	out := make([]int32, n)
	copy(out, t.Vals[:n])
	return out
}

// Draw is a pre-run decision (strategy, swarm configuration) taken by the
// harness before the simulation starts.
func (t *Tape) Draw(n int) int { return t.draw(n, nil) }

// NewSearchTapePrefix is NewSearchTape with the first decisions fixed (used to
// enumerate configuration cells while the rest of the run stays random).
func NewSearchTapePrefix(seed uint64, prefix []int32) *Tape {
	t := NewSearchTape(seed)
	t.Vals = append(t.Vals, prefix...)
	return t
}
