package simrt

import (
	"reflect"
	"sync"
	"unsafe"
)

const (
	lkMutex = iota
	lkRW
	lkRLocker
	lkOther
)

//go:norace
func lockKey(l sync.Locker) (unsafe.Pointer, int) {
	switch m := l.(type) {
	case *sync.Mutex:
		return unsafe.Pointer(m), lkMutex
	case *sync.RWMutex:
		return unsafe.Pointer(m), lkRW
	}
	if l == nil {
		return nil, lkOther
	}
	v := reflect.ValueOf(l)
	if v.Kind() == reflect.Pointer && v.Type().String() == "*sync.rlocker" {
		return v.UnsafePointer(), lkRLocker
	}
	return nil, lkOther
}

//go:norace
func tryLock(l sync.Locker, key unsafe.Pointer, kind int) bool {
	switch kind {
	case lkMutex:
		return (*sync.Mutex)(key).TryLock()
	case lkRW:
		return (*sync.RWMutex)(key).TryLock()
	case lkRLocker:
		return (*sync.RWMutex)(key).TryRLock()
	}
	return false
}

//go:norace
func (s *Sim) wakeMu(key unsafe.Pointer) {
	if key == nil {
		return
	}
	for _, w := range s.tasks {
		if w.waitMu == key && w.state.Load() == stDisabled {
			w.waitMu = nil
			w.state.Store(stEnabled)
		}
	}
}

// Lock is the simulated l.Lock().
//
//go:norace
func Lock(l sync.Locker, site string) {
	s, t := enter()
	if s == nil {
		l.Lock()
		return
	}
	t.park(stEnabled, site)
	s.lockLoop(t, l, site)
	raceEnable()
}

// lockLoop acquires l for t; race tracking is disabled on entry and exit.
//
//go:norace
func (s *Sim) lockLoop(t *Task, l sync.Locker, site string) {
	key, kind := lockKey(l)
	if kind == lkOther {
		t.blocked = site
		raceEnable()
		l.Lock()
		raceDisable()
		s.post(t)
		return
	}
	for {
		raceEnable()
		ok := tryLock(l, key, kind)
		raceDisable()
		if ok {
			return
		}
		t.waitMu = key
		t.park(stDisabled, site)
	}
}

// Unlock is the simulated l.Unlock().
//
//go:norace
func Unlock(l sync.Locker, site string) {
	s, _ := enter()
	if s == nil {
		l.Unlock()
		return
	}
	raceEnable()
	l.Unlock()
	raceDisable()
	key, _ := lockKey(l)
	s.wakeMu(key)
	raceEnable()
}

// TryLock is the simulated l.TryLock() for *sync.Mutex / *sync.RWMutex.
//
//go:norace
func TryLock(l sync.Locker, site string) bool {
	Gate(site)
	switch m := l.(type) {
	case *sync.Mutex:
		return m.TryLock()
	case *sync.RWMutex:
		return m.TryLock()
	}
	panic("simrt.TryLock: unsupported locker")
}

// RLock is the simulated m.RLock().
//
//go:norace
func RLock(m *sync.RWMutex, site string) {
	s, t := enter()
	if s == nil {
		m.RLock()
		return
	}
	t.park(stEnabled, site)
	for {
		raceEnable()
		ok := m.TryRLock()
		raceDisable()
		if ok {
			break
		}
		t.waitMu = unsafe.Pointer(m)
		t.park(stDisabled, site)
	}
	raceEnable()
}

// TryRLock is the simulated m.TryRLock().
//
//go:norace
func TryRLock(m *sync.RWMutex, site string) bool {
	Gate(site)
	return m.TryRLock()
}

// RUnlock is the simulated m.RUnlock().
//
//go:norace
func RUnlock(m *sync.RWMutex, site string) {
	s, _ := enter()
	if s == nil {
		m.RUnlock()
		return
	}
	raceEnable()
	m.RUnlock()
	raceDisable()
	s.wakeMu(unsafe.Pointer(m))
	raceEnable()
}

// LockFn / UnlockFn stand in for the method values l.Lock / l.Unlock.
func LockFn(l sync.Locker, site string) func()   { return func() { Lock(l, site) } }
func UnlockFn(l sync.Locker, site string) func() { return func() { Unlock(l, site) } }

// RLockFn / RUnlockFn stand in for m.RLock / m.RUnlock method values.
func RLockFn(m *sync.RWMutex, site string) func()   { return func() { RLock(m, site) } }
func RUnlockFn(m *sync.RWMutex, site string) func() { return func() { RUnlock(m, site) } }

// CondWait is the simulated c.Wait(): FIFO wait list, no spurious wake-ups.
// The gate in front of the enqueue is the window in which a Broadcast issued
// without the mutex is lost.
//
//go:norace
func CondWait(c *sync.Cond, site string) {
	s, t := enter()
	if s == nil {
		c.Wait()
		return
	}
	t.park(stEnabled, site)
	s.condSeq++
	t.condSeq = s.condSeq
	t.waitCond = unsafe.Pointer(c)
	raceEnable()
	c.L.Unlock()
	raceDisable()
	key, _ := lockKey(c.L)
	s.wakeMu(key)
	t.park(stDisabled, site)
	s.lockLoop(t, c.L, site)
	raceEnable()
}

// CondSignal is the simulated c.Signal().
//
//go:norace
func CondSignal(c *sync.Cond, site string) {
	s, _ := enter()
	if s == nil {
		c.Signal()
		return
	}
	var best *Task
	for _, w := range s.tasks {
		if w.waitCond == unsafe.Pointer(c) && w.state.Load() == stDisabled {
			if best == nil || w.condSeq < best.condSeq {
				best = w
			}
		}
	}
	if best != nil {
		best.waitCond = nil
		best.state.Store(stEnabled)
	}
	raceEnable()
}

// CondBroadcast is the simulated c.Broadcast().
//
//go:norace
func CondBroadcast(c *sync.Cond, site string) {
	s, _ := enter()
	if s == nil {
		c.Broadcast()
		return
	}
	for _, w := range s.tasks {
		if w.waitCond == unsafe.Pointer(c) && w.state.Load() == stDisabled {
			w.waitCond = nil
			w.state.Store(stEnabled)
		}
	}
	raceEnable()
}

// OnceDo is the simulated o.Do(f).
//
//go:norace
func OnceDo(o *sync.Once, f func(), site string) {
	s, t := enter()
	if s == nil {
		o.Do(f)
		return
	}
	t.park(stEnabled, site)
	for s.onceHeld(unsafe.Pointer(o), t) {
		t.waitOnce = unsafe.Pointer(o)
		t.park(stDisabled, site)
	}
	held := false
	for i := range t.inOnce {
		if t.inOnce[i] == nil {
			t.inOnce[i] = unsafe.Pointer(o)
			held = true
			break
		}
	}
	if !held {
		t.inOnce = append(t.inOnce, unsafe.Pointer(o))
	}
	raceEnable()
	defer onceRelease(s, t, unsafe.Pointer(o))
	o.Do(f)
}

//go:norace
func (s *Sim) onceHeld(o unsafe.Pointer, me *Task) bool {
	for _, w := range s.tasks {
		if w == me {
			continue
		}
		for i := range w.inOnce {
			if w.inOnce[i] == o {
				return true
			}
		}
	}
	return false
}

//go:norace
func onceRelease(s *Sim, t *Task, o unsafe.Pointer) {
	raceDisable()
	for i := len(t.inOnce) - 1; i >= 0; i-- {
		if t.inOnce[i] == o {
			t.inOnce[i] = nil
			break
		}
	}
	for _, w := range s.tasks {
		if w.waitOnce == o && w.state.Load() == stDisabled {
			w.waitOnce = nil
			w.state.Store(stEnabled)
		}
	}
	raceEnable()
}

// WGWait is the simulated (*sync.WaitGroup).Wait().
//
//go:norace
func WGWait(wg *sync.WaitGroup, site string) {
	t := Pre(site)
	wg.Wait()
	Post(t)
}
