#!/bin/bash
# usage: seedcheck.sh <seeded-dir> <PROP> [PROP...]
# Runs the quick checks against /repo + /verif/seeded/<dir>/patch.diff. By default the patch is applied to a
# scratch worktree of /repo (VERIF_REPO points the checks at it) so that background runs using /repo are not
# disturbed; SEEDCHECK_INPLACE=1 applies it to /repo itself and undoes it afterwards.
set -u
D=/verif/seeded/$1; shift
if [ -n "${SEEDCHECK_INPLACE:-}" ]; then
  cd /repo && git diff --quiet || { echo "/repo is dirty"; exit 2; }
  git -C /repo apply "$D/patch.diff" || { echo "patch does not apply"; exit 2; }
  R=/repo
else
  R=/tmp/seedrepo-$$
  git -C /repo worktree add -q --detach $R HEAD || exit 2
  git -C $R apply "$D/patch.diff" || { echo "patch does not apply"; git -C /repo worktree remove --force $R; exit 2; }
fi
for P in "$@"; do
  (cd /verif && VERIF_REPO=$R ./check $P --tier quick ${SEEDCHECK_ARGS:-} 2>&1 | grep -v "^  violation\|^      \|^  [a-z]*/\|^$\|^  github\|^  verif\|^Goroutine\|^Previous\|^Read at\|^Write at\|^  sync\|^  runtime" | cut -c1-260 | tail -${SEEDCHECK_TAIL:-6}; echo "== $P exit ${PIPESTATUS[0]}")
done
if [ -n "${SEEDCHECK_INPLACE:-}" ]; then
  git -C /repo checkout -- .
else
  git -C /repo worktree remove --force $R
fi
git -C /verif checkout -- evidence 2>/dev/null
git -C /repo status --short | head -3
