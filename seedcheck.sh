#!/bin/bash
# usage: seedcheck.sh <seeded-dir> <PROP> [PROP...]   -- apply /verif/seeded/<dir>/patch.diff to /repo, run the quick checks, undo
set -u
D=/verif/seeded/$1; shift
cd /repo && git diff --quiet || { echo "/repo is dirty"; exit 2; }
git -C /repo apply "$D/patch.diff" || { echo "patch does not apply"; exit 2; }
for P in "$@"; do
  (cd /verif && ./check $P --tier quick ${SEEDCHECK_ARGS:-} 2>&1 | grep -v "^  violation\|^      \|^  [a-z]*/\|^$\|^  github\|^  verif\|^Goroutine\|^Previous\|^Read at\|^Write at\|^  sync\|^  runtime" | cut -c1-260 | tail -6; echo "== $P exit ${PIPESTATUS[0]}")
done
git -C /repo checkout -- .
git -C /verif checkout -- evidence 2>/dev/null
git -C /repo status --short | head -3
