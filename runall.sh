#!/bin/bash
# runs every registered quick check with default parameters (regenerates evidence/)
cd /verif
for id in $(python3 -c "import json;print(' '.join(c['property_id'] for c in json.load(open('MANIFEST.json'))['checks']))"); do
  ./check $id --tier ${1:-quick} 2>&1 | tail -${2:-3}
  echo "== $id exit ${PIPESTATUS[0]}"
done
