#!/bin/bash
# runs every registered check with default parameters (regenerates evidence/)
# usage: runall.sh [quick|thorough] [tail-lines]     env VERIF_SEED selects the seed
cd "$(dirname "$0")"
for id in $(python3 -c "import json;print(' '.join(c['property_id'] for c in json.load(open('MANIFEST.json'))['checks']))"); do
  ./check $id --tier ${1:-quick} 2>&1 | cut -c1-700 | tail -${2:-3}
  echo "== $id exit ${PIPESTATUS[0]}"
done
