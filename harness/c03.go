package harness

import (
	"context"
	"errors"
	"fmt"
	"io"
	"strings"
	"sync/atomic"

	"github.com/tychoish/fun"
	"github.com/tychoish/fun/erc"
	"github.com/tychoish/fun/ers"
	"github.com/tychoish/fun/itertool"
	"verif/simrt"
)

// C03 — worker-group error contract: nothing lost, nothing leaked, abort stops.

const (
	fkNone = iota
	fkPlain
	fkWrapped
	fkPanicErr
	fkPanicStr
	fkPanicStruct
	fkSkip
	fkEOF
	fkCtxErr
	fkAbort
	fkPanicMulti
	fkPanicPlain
	fkNumKinds
)

var fkNames = []string{"none", "plain", "wrapped", "panic(error)", "panic(string)", "panic(struct)", "skip", "EOF", "ctxerr", "ErrCurrentOpAbort", "panic(errors.Join)", "panic(plainErr)"}

type c03Fault struct {
	pos  int
	kind int
}

type c03Call struct {
	item  int
	task  string
	kind  int
	start int
}

type errSentinel struct{ name string }

func (e *errSentinel) Error() string { return e.name }

var c03Constructs = []string{"ProcessParallel", "ParallelForEach", "itertool.Worker", "Map", "GenerateParallel"}

func c03Run(w *W, enumerate bool) {
	cons := simrt.Choose(len(c03Constructs))
	workers := 1 + simrt.Choose(4)
	contErr := simrt.Choose(2) == 1
	contPanic := simrt.Choose(2) == 1
	inclCtx := simrt.Choose(2) == 1
	excl := simrt.Choose(3) // 0 none, 1 the injected error, 2 an unrelated one
	useCollector := simrt.Choose(2) == 1
	// (the draws up to here and, in the fault family, the next three are the
	// configuration cell: see Workload.Cells)
	nFaults, firstKind, firstPos := 0, 0, 0
	if w.faulty() {
		nFaults = 1 + simrt.Choose(2)
		firstKind = 1 + simrt.Choose(fkNumKinds-1)
		firstPos = simrt.Choose(4)
	}
	n := 1 + simrt.Choose(12)
	if cons == 4 && w.faulty() && simrt.Choose(2) == 0 {
		n = 300 // "a long input is not drained"
	} else if w.faulty() {
		n = 2*workers + 5 + simrt.Choose(4)
	}
	plainErr := &errSentinel{"injected-plain"}
	panicErr := &errSentinel{"injected-panic-error"}
	unrelated := &errSentinel{"unrelated"}
	unrelatedInPanic := &errSentinel{"second-error-in-panic-value"}
	var faults []c03Fault
	for i := 0; i < nFaults; i++ {
		if i == 0 {
			faults = append(faults, c03Fault{pos: firstPos, kind: firstKind})
			continue
		}
		faults = append(faults, c03Fault{pos: simrt.Choose(n), kind: 1 + simrt.Choose(fkNumKinds-1)})
	}
	// a processing function that honours its context: when the context it was
	// handed has ended (the caller cancelled, or the group aborted) it returns
	// that context's error, which is a context error like any other
	ctxAware := w.faulty() && simrt.Choose(3) == 0
	realCancel := w.faulty() && simrt.Choose(6) == 0
	cancelAt := simrt.Choose(100)
	var fdesc []string
	for _, f := range faults {
		fdesc = append(fdesc, fmt.Sprintf("%s@%d", fkNames[f.kind], f.pos))
	}
	w.Config("%s n=%d w=%d contErr=%v contPanic=%v inclCtx=%v excl=%d collector=%v faults=%v realCancel=%v ctxAware=%v",
		c03Constructs[cons], n, workers, contErr, contPanic, inclCtx, excl, useCollector, fdesc, realCancel, ctxAware)
	w.State(fmt.Sprintf("%s ce=%v cp=%v ic=%v ex=%d f=%v", c03Constructs[cons], contErr, contPanic, inclCtx, excl, fdesc))

	var options []fun.OptionProvider[*fun.WorkerGroupConf]
	options = append(options, fun.WorkerGroupConfNumWorkers(workers))
	if contErr {
		options = append(options, fun.WorkerGroupConfContinueOnError())
	}
	if contPanic {
		options = append(options, fun.WorkerGroupConfContinueOnPanic())
	}
	if inclCtx {
		options = append(options, fun.WorkerGroupConfIncludeContextErrors())
	}
	switch excl {
	case 1:
		options = append(options, fun.WorkerGroupConfAddExcludeErrors(plainErr))
	case 2:
		options = append(options, fun.WorkerGroupConfAddExcludeErrors(unrelated))
	}
	var ec *erc.Collector
	if useCollector && cons != 1 { // ParallelForEach always installs its own collector
		ec = &erc.Collector{}
		options = append(options, fun.WorkerGroupConfWithErrorCollector(ec))
	}

	var calls []*c03Call
	failedTask := ""
	lateStarts := 0
	afterFailSameTask := 0
	faultFor := func(item int) int {
		for _, f := range faults {
			if f.pos == item {
				return f.kind
			}
		}
		return fkNone
	}
	continuable := func(kind int) bool {
		switch kind {
		case fkNone, fkSkip:
			return true
		case fkPlain, fkWrapped, fkAbort:
			return contErr
		case fkPanicErr, fkPanicStr, fkPanicStruct, fkPanicMulti, fkPanicPlain:
			return contPanic
		}
		return false
	}
	// invoke is the user function's body for item.
	var invoke func(ctx context.Context, item int) error
	invoke0 := func(item int) error {
		me := simrt.Self()
		if failedTask != "" {
			if me == failedTask {
				afterFailSameTask++
			} else if simrt.Exited(failedTask) {
				lateStarts++
			}
		}
		kind := faultFor(item)
		calls = append(calls, &c03Call{item: item, task: me, kind: kind, start: simrt.Stamp()})
		stall()
		if kind != fkNone {
			w.Fault("callback-" + fkNames[kind])
		}
		// (the generator's own io.EOF ends the sequence for that worker; it is
		// not the failure the abort clauses count from)
		if !continuable(kind) && failedTask == "" && !(cons == 4 && kind == fkEOF) {
			failedTask = me
		}
		switch kind {
		case fkPlain:
			return plainErr
		case fkWrapped:
			return fmt.Errorf("wrapped: %w", plainErr)
		case fkPanicErr:
			panic(panicErr)
		case fkPanicStr:
			panic("injected-panic-string")
		case fkPanicStruct:
			panic(struct{ A int }{7})
		case fkSkip:
			return fun.ErrIteratorSkip
		case fkEOF:
			return io.EOF
		case fkCtxErr:
			return context.Canceled
		case fkAbort:
			return ers.ErrCurrentOpAbort
		case fkPanicMulti:
			// the panic value is a standard multi-error
			panic(errors.Join(panicErr, unrelatedInPanic))
		case fkPanicPlain:
			// the panic value is the very error ExcludedErrors may list: a
			// panic stays a panic
			panic(plainErr)
		}
		return nil
	}

	invoke = func(ctx context.Context, item int) error {
		if ctxAware && faultFor(item) == fkNone && ctx.Err() != nil {
			calls = append(calls, &c03Call{item: item, task: simrt.Self(), kind: fkCtxErr, start: simrt.Stamp()})
			w.Fault("callback-ctxerr(own context ended)")
			return ctx.Err()
		}
		return invoke0(item)
	}
	items := make([]int, n)
	for i := range items {
		items[i] = i
	}
	cctx, ccancel := context.WithCancel(w.Ctx)
	var result error
	done := false
	var outVals []int
	switch cons {
	case 0, 1, 2:
		var run fun.Worker
		switch cons {
		case 0:
			run = fun.SliceIterator(items).ProcessParallel(func(ctx context.Context, v int) error { return invoke(ctx, v) }, options...)
		case 1:
			run = func(ctx context.Context) error {
				return itertool.ParallelForEach(ctx, fun.SliceIterator(items), func(ctx context.Context, v int) error { return invoke(ctx, v) }, options...)
			}
		case 2:
			ops := make([]fun.Worker, n)
			for i := range ops {
				i := i
				ops[i] = func(ctx context.Context) error { return invoke(ctx, i) }
			}
			run = func(ctx context.Context) error { return itertool.Worker(ctx, fun.SliceIterator(ops), options...) }
		}
		simrt.Spawn("runner", func() {
			result = run(cctx)
			done = true
		})
	case 3, 4:
		var out *fun.Iterator[int]
		if cons == 3 {
			out = fun.Map(fun.SliceIterator(items), func(ctx context.Context, v int) (int, error) { return v, invoke(ctx, v) }, options...)
		} else {
			var idx atomic.Int64
			out = fun.Producer[int](func(ctx context.Context) (int, error) {
				i := int(idx.Add(1)) - 1
				if i >= n {
					return 0, io.EOF
				}
				return i, invoke(ctx, i)
			}).GenerateParallel(options...)
		}
		simrt.Spawn("consumer", func() {
			for {
				v, err := out.ReadOne(cctx)
				if err != nil {
					break
				}
				outVals = append(outVals, v)
			}
			result = out.Close()
			if ec != nil {
				result = errors.Join(result, ec.Resolve())
			}
			done = true
		})
	}
	if realCancel {
		simrt.Spawn("fault:cancel", func() {
			simrt.WaitStep(cancelAt)
			ccancel()
		})
		w.Fault("cancel")
	}
	simrt.Quiesce()
	defer ccancel()
	name := c03Constructs[cons]
	if !done {
		w.Inconclusive("not-terminated") // C04's subject
		return
	}
	for _, c := range calls {
		w.hist = append(w.hist, fmt.Sprintf("@%d %s item=%d %s", c.start, c.task, c.item, fkNames[c.kind]))
	}
	w.hist = append(w.hist, fmt.Sprintf("result=%v", result))

	// ---- which failures were invoked ----
	invoked := map[int]bool{}
	perItem := map[int]int{}
	anyNonContinuable := false
	for _, c := range calls {
		invoked[c.kind] = true
		perItem[c.item]++
		if !continuable(c.kind) {
			anyNonContinuable = true
		}
	}
	plainReportable := (invoked[fkPlain] || invoked[fkWrapped]) && excl != 1
	panicked := invoked[fkPanicErr] || invoked[fkPanicStr] || invoked[fkPanicStruct] || invoked[fkPanicMulti] || invoked[fkPanicPlain]
	ctxReportable := invoked[fkCtxErr] && inclCtx
	cfg := fmt.Sprintf("%s[ce=%v,cp=%v,ic=%v,ex=%d]", name, contErr, contPanic, inclCtx, excl)
	_ = cfg
	sig := func(kind string, detail string) string { return kind + ":" + name + ":" + detail }

	// reported when they must be. (When the consumer of a Map/Generate
	// output is itself cancelled it calls Close while workers may still be
	// in flight; a failure that happens after that cannot be in Close's
	// result, so the must-report clauses are not judged there.)
	mustReport := !(realCancel && cons >= 3)
	plainReportable = plainReportable && mustReport
	panicked = panicked && mustReport
	ctxReportable = ctxReportable && mustReport
	if plainReportable && !errors.Is(result, plainErr) {
		w.Violate("error-lost", sig("error-lost", "plain"), "%s: the processing function returned %v but errors.Is(result, it) is false; result=%v", name, plainErr, result)
	}
	if panicked && !errors.Is(result, fun.ErrRecoveredPanic) {
		w.Violate("error-lost", sig("error-lost", "panic"), "%s: the processing function panicked but the result does not wrap ErrRecoveredPanic; result=%v", name, result)
	}
	if (invoked[fkPanicErr] || invoked[fkPanicMulti]) && mustReport && !errors.Is(result, panicErr) {
		w.Violate("error-lost", sig("error-lost", "panic-error"), "%s: panic(err) was recovered but errors.Is(result, err) is false; result=%v", name, result)
	}
	if invoked[fkPanicPlain] && excl != 1 && mustReport && !errors.Is(result, plainErr) {
		w.Violate("error-lost", sig("error-lost", "panic-error"), "%s: panic(err) was recovered but errors.Is(result, err) is false; result=%v", name, result)
	}
	if invoked[fkAbort] && mustReport && !errors.Is(result, ers.ErrCurrentOpAbort) {
		// ErrCurrentOpAbort is not among the errors the statement exempts from
		// reporting (io.EOF, ErrIteratorSkip, context errors, ExcludedErrors)
		w.Violate("error-lost", sig("error-lost", "ErrCurrentOpAbort"), "%s: the processing function returned ErrCurrentOpAbort but errors.Is(result, it) is false; result=%v", name, result)
	}
	if ctxReportable && !errors.Is(result, context.Canceled) {
		w.Violate("error-lost", sig("error-lost", "ctxerr-included"), "%s: IncludeContextExpirationErrors is set, the function returned context.Canceled, result=%v", name, result)
	}
	// never reported when they must not be
	if (invoked[fkPlain] || invoked[fkWrapped]) && excl == 1 && !invoked[fkPanicPlain] && errors.Is(result, plainErr) {
		w.Violate("excluded-error-reported", sig("excluded-error-reported", "plain"), "%s: %v is listed in ExcludedErrors but was reported: %v", name, plainErr, result)
	}
	if errors.Is(result, io.EOF) {
		w.Violate("eof-reported", sig("eof-reported", ""), "%s: io.EOF was reported: %v", name, result)
	}
	if errors.Is(result, fun.ErrIteratorSkip) {
		w.Violate("skip-reported", sig("skip-reported", ""), "%s: ErrIteratorSkip was reported: %v", name, result)
	}
	if !inclCtx && (errors.Is(result, context.Canceled) || errors.Is(result, context.DeadlineExceeded)) {
		w.Violate("ctxerr-reported", sig("ctxerr-reported", ""), "%s: a context error was reported without IncludeContextExpirationErrors: %v", name, result)
	}
	// nil exactly when nothing reportable happened
	reportable := (invoked[fkPlain] || invoked[fkWrapped]) && excl != 1 || invoked[fkPanicErr] || invoked[fkPanicStr] || invoked[fkPanicStruct] || invoked[fkPanicMulti] || invoked[fkPanicPlain] || invoked[fkCtxErr] && inclCtx || invoked[fkAbort]
	if !reportable && result != nil && !(realCancel && inclCtx) {
		w.Violate("spurious-error", sig("spurious-error", ""), "%s: no reportable failure occurred but the result is %v", name, result)
	}
	if realCancel {
		return
	}
	// exactly once in continue modes
	if !anyNonContinuable {
		for _, it := range items {
			if perItem[it] != 1 {
				w.Violate("not-exactly-once", sig("not-exactly-once", "continue"), "%s: nothing aborted the run but item %d was processed %d times (calls=%d of %d)", name, it, perItem[it], len(calls), n)
				break
			}
		}
		if cons >= 3 {
			// the output of Map / GenerateParallel holds exactly the items whose
			// invocation succeeded, each once
			var want []int
			for _, it := range items {
				if faultFor(it) == fkNone {
					want = append(want, it)
				}
			}
			if !sameMultiset(outVals, want) {
				w.Violate("output-mismatch", sig("output-mismatch", "continue"), "%s: nothing aborted the run; the output %v is not the multiset of successfully processed items %v", name, outVals, want)
			}
		}
		return
	}
	// abort modes
	if afterFailSameTask > 0 {
		w.Violate("failed-worker-continued", sig("failed-worker-continued", ""), "%s: the worker whose invocation failed non-continuably processed %d further item(s)", name, afterFailSameTask)
	}
	if cons == 4 {
		abortingFailure := false
		for _, c := range calls {
			// the generator's own io.EOF means "end of the sequence", not a failure
			if !continuable(c.kind) && c.kind != fkEOF && c.item <= 3 {
				abortingFailure = true
			}
		}
		// counted from the moment the failing worker's goroutine has exited
		// (a scheduler may park the failing callback for as long as it likes).
		// Each further round of another worker needs its send to win a coin
		// flip against ctx.Done(), so 60 more starts is beyond 2^-50.
		if n == 300 && abortingFailure && lateStarts > 60 {
			w.Violate("abort-drained-input", sig("abort-drained-input", ""), "%s: a non-continuable failure at the start did not stop the group: %d generator invocations started after the failing worker had exited (%d in total)", name, lateStarts, len(calls))
		}
	} else if lateStarts > workers-1 {
		w.Violate("abort-not-bounded", sig("abort-not-bounded", ""), "%s: %d items were started after the failing worker had exited (bound: workers-1 = %d; %d of %d items processed)", name, lateStarts, workers-1, len(calls), n)
	}
	_ = strings.Join
}

func init() {
	Register(&Workload{Prop: "C03", Name: "nofault", MaxSteps: 30000, Cells: []int{5, 4, 2, 2, 2, 3, 2}, Run: func(w *W) { c03Run(w, false) }})
	Register(&Workload{Prop: "C03", Name: "faults", Faulty: true, MaxSteps: 30000, Cells: []int{5, 4, 2, 2, 2, 3, 2, 2, fkNumKinds - 1, 4}, Run: func(w *W) { c03Run(w, false) }})
}
