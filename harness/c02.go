package harness

import (
	"bytes"
	"context"
	"errors"
	"fmt"
	"io"
	"strings"

	"github.com/tychoish/fun"
	"github.com/tychoish/fun/dt"
	"github.com/tychoish/fun/ers"
	"github.com/tychoish/fun/itertool"
	"github.com/tychoish/fun/risky"
	"verif/simrt"
)

// C02 — sequential iterator pipelines equal their functional specification.
//
// A generated pipeline is: a (fault-free) combination of sources, a linear
// chain of unary stages some of which carry an injected skip / error / EOF at
// their k-th call, and a terminal operation. The reference is the same
// pipeline evaluated on slices by the small interpreter below, written from
// the operators' documentation.

var errInjected = errors.New("injected-stage-error")

// fault kinds for user functions
const (
	ufNone = iota
	ufSkip
	ufError
	ufEOF
	ufAbort
)

var ufNames = []string{"none", "skip", "error", "eof", "abort"}

type stage struct {
	name string
	lib  func(*fun.Iterator[int]) *fun.Iterator[int]
	ref  func([]int) []int
}

func randVals(n int) []int {
	out := make([]int, n)
	for i := range out {
		out[i] = simrt.Choose(5) // small domain: duplicates and zero values
	}
	return out
}

// c02Source builds one source over vals.
func c02Source(p *pipe, vals []int) (*fun.Iterator[int], string) {
	switch simrt.Choose(7) {
	case 0:
		return fun.SliceIterator(append([]int{}, vals...)), "slice"
	case 1:
		return fun.VariadicIterator(vals...), "variadic"
	case 2:
		// (spawned at once: some stages - JSON, the container conversions -
		// drain their input while the pipeline is still being built)
		ch := make(chan int)
		simrt.Spawn("feeder", func() {
			for _, v := range vals {
				hsend(ch, v)
			}
			hclose(ch)
		})
		return fun.ChannelIterator(ch), "channel"
	case 3:
		i := 0
		return fun.Generator(func(context.Context) (int, error) {
			if i >= len(vals) {
				return 0, io.EOF
			}
			i++
			return vals[i-1], nil
		}), "generator"
	case 4:
		return dt.NewSlice(append([]int{}, vals...)).Iterator(), "dt.Slice"
	case 5:
		l := &dt.List[int]{}
		l.Append(vals...)
		return l.Iterator(), "dt.List"
	default:
		// JSON: marshal through an iterator, unmarshal into a fresh one. Half of
		// the time the document is written by hand, with some zero elements
		// spelled "null" (which decodes to the zero value as well).
		b, err := fun.SliceIterator(append([]int{}, vals...)).MarshalJSON()
		if err != nil {
			panic(err)
		}
		name := "json"
		if simrt.Choose(2) == 1 {
			parts := make([]string, len(vals))
			for k, v := range vals {
				parts[k] = fmt.Sprint(v)
				if v == 0 && simrt.Choose(2) == 1 {
					parts[k] = "null"
				}
			}
			b = []byte("[" + strings.Join(parts, ", ") + "]")
			name = "json(" + string(b) + ")"
		}
		it := dt.NewSlice([]int{}).Iterator()
		if err := it.UnmarshalJSON(b); err != nil {
			panic(err)
		}
		return it, name
	}
}

// faulty wraps an int->(int,error) user function so that its k-th call fails.
type userFn struct {
	at, kind, calls int
}

// c02OnFail, when set, runs right before a user function returns an error
// that ends the sequence (the consumer uses it to end the context of the call
// that is in flight at that very moment).
var c02OnFail func()

func (u *userFn) hit() error {
	u.calls++
	if u.kind != ufNone && u.calls == u.at {
		if (u.kind == ufError || u.kind == ufAbort) && c02OnFail != nil {
			c02OnFail()
		}
		switch u.kind {
		case ufSkip:
			return fun.ErrIteratorSkip
		case ufError:
			return errInjected
		case ufEOF:
			return io.EOF
		case ufAbort:
			// not a skip: the sequence is truncated here like for any error
			return fmt.Errorf("stage gives up: %w", ers.ErrCurrentOpAbort)
		}
	}
	return nil
}

// refMap applies f with the same fault plan to a slice.
func refMap(in []int, at, kind int, f func(int) int) []int {
	var out []int
	for i, x := range in {
		if kind != ufNone && i+1 == at {
			if kind == ufSkip {
				continue
			}
			return out
		}
		out = append(out, f(x))
	}
	return out
}

func c02Stage(ctx context.Context, allowFault bool) stage {
	at, kind := 0, ufNone
	if allowFault && simrt.Choose(3) == 0 {
		at = 1 + simrt.Choose(5)
		kind = 1 + simrt.Choose(4)
	}
	fdesc := ""
	if kind != ufNone {
		fdesc = fmt.Sprintf("[%s@%d]", ufNames[kind], at)
	}
	rev := func(in []int) []int {
		out := make([]int, len(in))
		for k, x := range in {
			out[len(in)-1-k] = x
		}
		return out
	}
	ident := func(in []int) []int { return in }
	switch simrt.Choose(14) {
	case 12:
		// list conversions: forward, reverse and the destructive variants
		switch simrt.Choose(5) {
		case 0:
			return stage{"List.Iterator", func(i *fun.Iterator[int]) *fun.Iterator[int] {
				l, _ := dt.NewListFromIterator(ctx, i)
				return l.Iterator()
			}, ident}
		case 1:
			return stage{"List.Reverse", func(i *fun.Iterator[int]) *fun.Iterator[int] {
				l, _ := dt.NewListFromIterator(ctx, i)
				return l.Reverse()
			}, rev}
		case 2:
			return stage{"List.PopIterator", func(i *fun.Iterator[int]) *fun.Iterator[int] {
				l, _ := dt.NewListFromIterator(ctx, i)
				return l.PopIterator()
			}, ident}
		case 3:
			return stage{"List.PopReverse", func(i *fun.Iterator[int]) *fun.Iterator[int] {
				l, _ := dt.NewListFromIterator(ctx, i)
				return l.PopReverse()
			}, rev}
		default:
			return stage{"risky.List", func(i *fun.Iterator[int]) *fun.Iterator[int] { return risky.List(i).Iterator() }, ident}
		}
	case 13:
		// stack and slice conversions (a stack iterates newest first)
		switch simrt.Choose(4) {
		case 0:
			if simrt.Choose(2) == 1 {
				// a stack on its second cycle: filled and drained (read past
				// its end) once before it takes the pipeline's items
				return stage{"Stack(reused).Iterator", func(i *fun.Iterator[int]) *fun.Iterator[int] {
					st := &dt.Stack[int]{}
					st.Push(9)
					st.Push(8)
					_, _ = st.PopIterator().Slice(ctx)
					_ = st.Populate(i).Run(ctx)
					return st.Iterator()
				}, rev}
			}
			return stage{"Stack.Iterator", func(i *fun.Iterator[int]) *fun.Iterator[int] {
				st, _ := dt.NewStackFromIterator(ctx, i)
				return st.Iterator()
			}, rev}
		case 1:
			if simrt.Choose(2) == 1 {
				return stage{"Stack(reused).PopIterator", func(i *fun.Iterator[int]) *fun.Iterator[int] {
					st := &dt.Stack[int]{}
					st.Push(9)
					for st.Pop().Ok() {
					}
					_ = st.Populate(i).Run(ctx)
					return st.PopIterator()
				}, rev}
			}
			return stage{"Stack.PopIterator", func(i *fun.Iterator[int]) *fun.Iterator[int] {
				st, _ := dt.NewStackFromIterator(ctx, i)
				return st.PopIterator()
			}, rev}
		case 2:
			return stage{"Slice.Populate", func(i *fun.Iterator[int]) *fun.Iterator[int] {
				sl := dt.Slice[int]{}
				_ = sl.Populate(i).Run(ctx)
				return sl.Iterator()
			}, ident}
		default:
			return stage{"risky.Slice", func(i *fun.Iterator[int]) *fun.Iterator[int] { return fun.SliceIterator(risky.Slice(i)) }, ident}
		}
	case 0:
		return stage{"Filter(odd)", func(i *fun.Iterator[int]) *fun.Iterator[int] { return i.Filter(func(x int) bool { return x%2 == 1 }) },
			func(in []int) []int {
				var out []int
				for _, x := range in {
					if x%2 == 1 {
						out = append(out, x)
					}
				}
				return out
			}}
	case 1, 2:
		u := &userFn{at: at, kind: kind}
		return stage{"Transform(2x+1)" + fdesc, func(i *fun.Iterator[int]) *fun.Iterator[int] {
			return i.Transform(func(_ context.Context, x int) (int, error) {
				if err := u.hit(); err != nil {
					return 0, err
				}
				return 2*x + 1, nil
			})
		}, func(in []int) []int { return refMap(in, at, kind, func(x int) int { return 2*x + 1 }) }}
	case 3:
		u := &userFn{at: at, kind: kind}
		return stage{"ConvertIterator(x+10)" + fdesc, func(i *fun.Iterator[int]) *fun.Iterator[int] {
			return fun.ConvertIterator(i, fun.ConverterErr(func(x int) (int, error) {
				if err := u.hit(); err != nil {
					return 0, err
				}
				return x + 10, nil
			}))
		}, func(in []int) []int { return refMap(in, at, kind, func(x int) int { return x + 10 }) }}
	case 4:
		n := simrt.Choose(3)
		return stage{fmt.Sprintf("Buffer(%d)", n), func(i *fun.Iterator[int]) *fun.Iterator[int] { return i.Buffer(n) }, func(in []int) []int { return in }}
	case 5:
		return stage{"Split(1)", func(i *fun.Iterator[int]) *fun.Iterator[int] { return i.Split(1)[0] }, func(in []int) []int { return in }}
	case 6:
		n := simrt.Choose(3)
		return stage{fmt.Sprintf("BufferedChannel(%d)", n), func(i *fun.Iterator[int]) *fun.Iterator[int] {
			return fun.ChannelIterator(i.BufferedChannel(ctx, n))
		}, func(in []int) []int { return in }}
	case 7:
		return stage{"Uniq", func(i *fun.Iterator[int]) *fun.Iterator[int] { return itertool.Uniq(i) }, func(in []int) []int {
			seen := map[int]bool{}
			var out []int
			for _, x := range in {
				if !seen[x] {
					seen[x] = true
					out = append(out, x)
				}
			}
			return out
		}}
	case 8:
		return stage{"DropZeroValues", func(i *fun.Iterator[int]) *fun.Iterator[int] { return itertool.DropZeroValues(i) }, func(in []int) []int {
			var out []int
			for _, x := range in {
				if x != 0 {
					out = append(out, x)
				}
			}
			return out
		}}
	case 9:
		return stage{"Indexed", func(i *fun.Iterator[int]) *fun.Iterator[int] {
			return fun.ConvertIterator(itertool.Indexed(i), fun.Converter(func(p dt.Pair[int, int]) int { return p.Key*100 + p.Value }))
		}, func(in []int) []int {
			out := make([]int, len(in))
			for k, x := range in {
				out[k] = k*100 + x
			}
			return out
		}}
	case 10:
		return stage{"Join(tail)", func(i *fun.Iterator[int]) *fun.Iterator[int] { return i.Join(fun.SliceIterator([]int{7, 0, 7})) },
			func(in []int) []int { return append(append([]int{}, in...), 7, 0, 7) }}
	default:
		return stage{"JSON", func(i *fun.Iterator[int]) *fun.Iterator[int] {
			b, err := i.MarshalJSON()
			if err != nil {
				panic(err)
			}
			out := dt.NewSlice([]int{}).Iterator()
			if err := out.UnmarshalJSON(b); err != nil {
				panic(err)
			}
			return out
		}, func(in []int) []int { return in }}
	}
}

func c02Run(w *W) {
	p := &pipe{}
	c02OnFail = nil
	ctx := w.Ctx
	// ---- sources ----
	var desc []string
	var it *fun.Iterator[int]
	var ref []int
	nsrc := 1 + simrt.Choose(3)
	comb := simrt.Choose(4) // 0 Join, 1 Chain, 2 MergeSlices, 3 MergeSliceIterators
	var parts [][]int
	for i := 0; i < nsrc; i++ {
		parts = append(parts, randVals(simrt.Choose(5)))
	}
	for _, part := range parts {
		ref = append(ref, part...)
	}
	switch {
	case nsrc == 1:
		var d string
		it, d = c02Source(p, parts[0])
		desc = append(desc, d)
	case comb == 0:
		var its []*fun.Iterator[int]
		for _, part := range parts {
			s, d := c02Source(p, part)
			its = append(its, s)
			desc = append(desc, d)
		}
		it = its[0].Join(its[1:]...)
		desc = []string{"Join(" + strings.Join(desc, ",") + ")"}
	case comb == 1:
		var its []*fun.Iterator[int]
		for _, part := range parts {
			s, d := c02Source(p, part)
			its = append(its, s)
			desc = append(desc, d)
		}
		it = itertool.Chain(its...)
		desc = []string{"Chain(" + strings.Join(desc, ",") + ")"}
	case comb == 2:
		it = itertool.MergeSlices(parts...)
		desc = []string{fmt.Sprintf("MergeSlices(%d)", nsrc)}
	default:
		it = itertool.MergeSliceIterators(fun.SliceIterator(parts))
		desc = []string{fmt.Sprintf("MergeSliceIterators(%d)", nsrc)}
	}
	// ---- an input with a history: the stages are built over an iterator that
	// has already been read from (the specification is the remainder), or
	// closed, or drained (it "yields nothing further", through whatever is
	// stacked on it afterwards)
	if pre := simrt.Choose(6); pre >= 3 {
		for _, f := range p.feeders {
			simrt.Spawn("feeder", f)
		}
		p.feeders = nil
		k := simrt.Choose(len(ref) + 1)
		switch pre {
		case 3:
			desc = append(desc, fmt.Sprintf("[%d read before]", k))
		case 4:
			desc = append(desc, fmt.Sprintf("[%d read, then Close, before]", k))
		case 5:
			k = len(ref) + 1
			desc = append(desc, "[drained before]")
		}
		for i := 0; i < k; i++ {
			v, err := it.ReadOne(ctx)
			if i < len(ref) && (err != nil || v != ref[i]) {
				w.Violate("spec-mismatch", "spec-mismatch:ReadOne*", "%s: read %d of the input gave %d, %v; want %d", strings.Join(desc, " | "), i, v, err, ref[i])
				return
			}
			if i >= len(ref) && err == nil {
				w.Violate("spec-mismatch", "spec-mismatch:ReadOne*", "%s: the input yielded %d beyond its %d items", strings.Join(desc, " | "), v, len(ref))
				return
			}
		}
		if pre == 4 {
			_ = it.Close()
		}
		if pre == 3 {
			ref = append([]int{}, ref[k:]...)
		} else {
			ref = nil
		}
	}
	// ---- unary stages ----
	nst := simrt.Choose(5)
	abortPlanned := false
	for i := 0; i < nst; i++ {
		st := c02Stage(ctx, w.faulty())
		if abortPlanned && strings.HasPrefix(st.name, "Join(") {
			// ErrCurrentOpAbort ends the iteration for good, a following Join
			// included (for a plain error the failing stage just ends and a
			// Join moves on to its next operand): the statement does not say
			// which, so nothing is concatenated behind an abort here
			continue
		}
		if strings.Contains(st.name, "[abort@") {
			abortPlanned = true
		}
		it = st.lib(it)
		ref = st.ref(ref)
		desc = append(desc, st.name)
	}
	for _, f := range p.feeders {
		simrt.Spawn("feeder", f)
	}
	// ---- terminal ----
	term := simrt.Choose(6)
	tnames := []string{"Slice", "ReadOne*", "Reduce(sum)", "Count", "Contains(7)", "MarshalJSON"}
	rat, rkind := 0, ufNone
	if term == 2 && w.faulty() && simrt.Choose(2) == 0 {
		rat, rkind = 1+simrt.Choose(4), 1+simrt.Choose(3)
		tnames[2] = fmt.Sprintf("Reduce(sum)[%s@%d]", ufNames[rkind], rat)
	}
	// "read with a deadline": the first element is read with the long-lived
	// context, every further one with a context of its own that is ended
	// after the call - and, as a fault, during the very call in which a user
	// function fails
	perCall := term == 1 && w.faulty() && simrt.Choose(2) == 0
	if perCall {
		tnames[1] = "ReadOne*[per-call contexts]"
	}
	w.Config("%s | %s -> %v", strings.Join(desc, " | "), tnames[term], ref)
	w.State(fmt.Sprintf("stages=%d term=%s", nst, tnames[term]))
	done := false
	var mismatch string
	simrt.Spawn("consumer", func() {
		defer func() { done = true }()
		switch term {
		case 0:
			got, _ := it.Slice(ctx)
			if !sameSeq(got, ref) {
				mismatch = fmt.Sprintf("Slice() = %v, want %v", got, ref)
			}
		case 1:
			var got []int
			endedInFlight := false
			for k := 0; ; k++ {
				cctx, cancel := ctx, context.CancelFunc(func() {})
				if perCall && k > 0 {
					cctx, cancel = context.WithCancel(ctx)
					me := simrt.Self()
					c02OnFail = func() {
						if simrt.Self() != me {
							// the failing stage runs in a goroutine of its own
							// (Split(1), Buffer, ...): from there the consumer's
							// call cannot be known to be past ReadOne's entry
							// check, and a context that has ended before the call
							// looks at it deliberately does not end the iterator
							return
						}
						if !endedInFlight {
							endedInFlight = true
							w.Fault("call-context-ended-while-user-function-fails")
						}
						cancel()
					}
				}
				v, err := it.ReadOne(cctx)
				c02OnFail = nil
				cancel()
				if err != nil {
					break
				}
				got = append(got, v)
			}
			// once ReadOne has returned an error the iterator yields nothing further
			for k := 0; k < 3; k++ {
				if v, err := it.ReadOne(ctx); err == nil {
					mismatch = fmt.Sprintf("ReadOne yielded %d after it had returned an error (sequence so far %v)", v, got)
				}
			}
			if mismatch == "" && endedInFlight {
				// the failing call may report the context's error or the
				// function's; what was yielded before it is a prefix of the
				// specification either way (a Join behind the failing stage
				// cannot move on under an ended context)
				if len(got) > len(ref) || !sameSeq(got, ref[:len(got)]) {
					mismatch = fmt.Sprintf("ReadOne sequence = %v is not a prefix of %v", got, ref)
				}
			} else if mismatch == "" && !sameSeq(got, ref) {
				mismatch = fmt.Sprintf("ReadOne sequence = %v, want %v", got, ref)
			}
		case 2:
			u := &userFn{at: rat, kind: rkind}
			got, err := it.Reduce(func(x, acc int) (int, error) {
				if e := u.hit(); e != nil {
					return 0, e
				}
				return acc + x, nil
			})(ctx)
			want := 0
			wantErr := false
			for k, x := range ref {
				if rkind != ufNone && k+1 == rat {
					if rkind == ufSkip {
						continue
					}
					wantErr = rkind == ufError
					break
				}
				want += x
			}
			if got != want || (err != nil) != wantErr {
				mismatch = fmt.Sprintf("Reduce(sum) = %d, %v; want %d, error=%v", got, err, want, wantErr)
			}
		case 3:
			if got := it.Count(ctx); got != len(ref) {
				mismatch = fmt.Sprintf("Count() = %d, want %d", got, len(ref))
			}
		case 4:
			want := false
			for _, x := range ref {
				if x == 7 {
					want = true
				}
			}
			if got := itertool.Contains(ctx, 7, it); got != want {
				mismatch = fmt.Sprintf("Contains(7) = %v, want %v", got, want)
			}
		case 5:
			b, err := it.MarshalJSON()
			strs := make([]string, len(ref))
			for k, x := range ref {
				strs[k] = fmt.Sprint(x)
			}
			want := "[" + strings.Join(strs, ",") + "]"
			if err != nil || !bytes.Equal(bytes.TrimSpace(b), []byte(want)) {
				mismatch = fmt.Sprintf("MarshalJSON() = %s, %v; want %s", b, err, want)
			}
		}
		_ = it.Close()
	})
	simrt.Quiesce()
	if !done {
		w.Inconclusive("not-terminated") // termination is C04's subject
		return
	}
	if mismatch != "" {
		w.Violate("spec-mismatch", "spec-mismatch:"+tnames[term][:strings.IndexAny(tnames[term]+"[", "[")], "%s | %s: %s", strings.Join(desc, " | "), tnames[term], mismatch)
	}
}

func init() {
	Register(&Workload{Prop: "C02", Name: "pipelines", MaxSteps: 20000, Run: c02Run})
	Register(&Workload{Prop: "C02", Name: "pipelines-faults", Faulty: true, MaxSteps: 20000, Run: c02Run})
}
