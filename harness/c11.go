package harness

import (
	"context"
	"errors"
	"fmt"
	"time"

	"github.com/tychoish/fun"
	"github.com/tychoish/fun/pubsub"
	"github.com/tychoish/fun/srv"
	"verif/simrt"
)

// C11 — orchestrator and service wrappers run all submitted work and collect all errors.

// member is a harness service with a scripted outcome.
type member struct {
	id       int
	svc      *srv.Service
	outcome  int // poOK, poError, poPanic
	blocks   bool
	err      error
	runs     int
	enter    int64
	exit     int64
	ctxAtRun context.Context
	ctxEnded bool // its context was already cancelled when Run was entered
	addedAt  int64
	addErr   error
	flav     string
	pre      int // 0 not started, 1 running, 2 finished (before being handed over)
}

func newMember(h *Hist, id int) *member {
	m := &member{id: id, outcome: 1 + simrt.Choose(3), blocks: simrt.Choose(2) == 1}
	m.err, m.flav = newFlavErr("member-%d-failure", id)
	m.svc = &srv.Service{Name: fmt.Sprintf("member%d", id)}
	m.svc.Run = func(ctx context.Context) error {
		m.runs++
		m.ctxAtRun = ctx
		m.ctxEnded = ctx.Err() != nil
		m.enter = h.Tick()
		stall()
		if m.blocks {
			t := simrt.Pre("harness:member-wait")
			<-ctx.Done()
			simrt.Post(t)
		}
		m.exit = h.Tick()
		switch m.outcome {
		case poError:
			return m.err
		case poPanic:
			panic(m.err)
		}
		return nil
	}
	return m
}

func (m *member) String() string {
	return fmt.Sprintf("m%d{%s/%s blocks=%v pre=%d runs=%d [%d,%d] added@%d}", m.id, poNames[m.outcome], m.flav, m.blocks, m.pre, m.runs, m.enter, m.exit, m.addedAt)
}

func c11Orchestrator(w *W) {
	h := &Hist{}
	n := simrt.Choose(6)
	octx, ocancel := context.WithCancel(w.Ctx)
	defer ocancel()
	or := &srv.Orchestrator{Name: "orch"}
	var members []*member
	startFirst := simrt.Choose(2) == 1
	var desc []string
	for i := 0; i < n; i++ {
		m := newMember(h, i)
		m.pre = simrt.Choose(3)
		if m.pre == 2 {
			m.blocks = false
		}
		members = append(members, m)
	}
	// services handed over in the "running" or "finished" state are started by the harness first
	for _, m := range members {
		if m.pre != 0 {
			if err := m.svc.Start(octx); err != nil {
				panic(err)
			}
		}
	}
	simrt.Quiesce() // pre-started services reach their steady state
	var cancelAt int64
	late := 0
	startOrch := func() {
		simrt.Spawn("orch-start", func() {
			if err := or.Start(octx); err != nil {
				w.Violate("orchestrator-start", "orchestrator-start", "Orchestrator.Start returned %v", err)
			}
		})
	}
	if startFirst {
		startOrch()
	}
	for _, m := range members {
		m := m
		delay := simrt.Choose(40)
		if delay > 30 {
			late++
		}
		simrt.Spawn(fmt.Sprintf("adder%d", m.id), func() {
			simrt.WaitStep(simrt.Stamp() + delay)
			m.addErr = or.Add(m.svc)
			m.addedAt = h.Tick()
		})
	}
	if !startFirst {
		startOrch()
	}
	raceCancel := w.faulty() && simrt.Choose(2) == 1
	if raceCancel {
		at := simrt.Choose(200)
		simrt.Spawn("fault:cancel", func() {
			simrt.WaitStep(simrt.Stamp() + at)
			cancelAt = h.Tick()
			ocancel()
		})
		w.Fault("cancel")
	}
	simrt.Quiesce()
	if cancelAt == 0 {
		cancelAt = h.Tick()
		ocancel()
		w.Fault("cancel-at-quiescence")
	}
	var waitErr error
	waitRet := int64(0)
	simrt.Spawn("orch-wait", func() {
		waitErr = or.Wait()
		waitRet = h.Tick()
	})
	simrt.Quiesce()
	for _, m := range members {
		desc = append(desc, m.String())
	}
	w.Config("orchestrator n=%d startFirst=%v raceCancel=%v cancel@%d wait@%d", n, startFirst, raceCancel, cancelAt, waitRet)
	w.State(fmt.Sprintf("orch n=%d sf=%v rc=%v", n, startFirst, raceCancel))
	w.hist = append(w.hist, desc...)
	w.hist = append(w.hist, fmt.Sprintf("wait=%v", waitErr))
	if waitRet == 0 {
		w.Violate("orchestrator-wait-blocked", "orchestrator-wait-blocked", "Orchestrator.Wait has not returned after its context was cancelled")
		return
	}
	for _, m := range members {
		if m.runs > 1 {
			w.Violate("started-twice", "started-twice:orchestrator", "%v was run %d times", m, m.runs)
		}
		if m.addErr != nil || m.addedAt == 0 || m.addedAt > cancelAt {
			continue // not handed over before the cancel
		}
		if m.runs == 1 && m.exit == 0 {
			w.Violate("not-awaited", "not-awaited:orchestrator:still-running", "Orchestrator.Wait returned at %d while %v has not returned", waitRet, m)
			continue
		}
		if m.runs == 1 && m.exit > waitRet {
			w.Violate("not-awaited", fmt.Sprintf("not-awaited:orchestrator:pre=%d", m.pre), "Orchestrator.Wait returned at %d before %v returned", waitRet, m)
		}
		if m.runs == 1 && m.outcome != poOK && !errors.Is(waitErr, m.err) {
			w.Violate("error-lost", fmt.Sprintf("error-lost:orchestrator:pre=%d", m.pre), "%v failed but errors.Is(Orchestrator.Wait(), its error) is false: %v", m, waitErr)
		}
		if m.runs == 0 && m.pre == 0 && !raceCancel {
			w.Violate("never-started", "never-started:orchestrator", "%v was added at %d, before the cancel at %d with the orchestrator idle, and was never started", m, m.addedAt, cancelAt)
		}
	}
}

func c11Group(w *W) {
	h := &Hist{}
	n := simrt.Choose(5)
	gctx, gcancel := context.WithCancel(w.Ctx)
	defer gcancel()
	var members []*member
	var svcs []*srv.Service
	for i := 0; i < n; i++ {
		m := newMember(h, i)
		// a member may already have been started by somebody else (still
		// running, or finished) when the group gets to it: the group must still
		// await it and collect its failure
		if simrt.Choose(4) == 0 {
			m.pre = 1 + simrt.Choose(2)
			if m.pre == 2 {
				m.blocks = false
			}
		}
		members = append(members, m)
		svcs = append(svcs, m.svc)
	}
	for _, m := range members {
		if m.pre != 0 {
			if err := m.svc.Start(gctx); err != nil {
				panic(err)
			}
		}
	}
	simrt.Quiesce() // pre-started members reach their steady state
	g := srv.Group(fun.SliceIterator(svcs))
	var waitErr error
	waitRet := int64(0)
	simrt.Spawn("group", func() {
		if err := g.Start(gctx); err != nil {
			w.Violate("group-start", "group-start", "Group.Start returned %v", err)
			return
		}
		waitErr = g.Wait()
		waitRet = h.Tick()
	})
	simrt.Quiesce()
	// members that block keep the group alive until its context ends
	earlyStop := false
	for _, m := range members {
		if m.blocks && m.runs == 1 && m.exit != 0 {
			earlyStop = true
		}
	}
	cancelAt := h.Tick()
	gcancel()
	w.Fault("cancel-at-quiescence")
	simrt.Quiesce()
	w.Config("group n=%d", n)
	w.State(fmt.Sprintf("group n=%d", n))
	for _, m := range members {
		w.hist = append(w.hist, m.String())
	}
	w.hist = append(w.hist, fmt.Sprintf("wait=%v", waitErr))
	if earlyStop {
		w.Violate("member-stopped-early", "member-stopped-early:group", "a member that runs until its context ends returned before the group's context was cancelled at %d", cancelAt)
	}
	if waitRet == 0 {
		w.Violate("group-wait-blocked", "group-wait-blocked", "Group Wait has not returned after the group's context was cancelled")
		return
	}
	for _, m := range members {
		if m.runs != 1 {
			w.Violate("member-start-count", "member-start-count:group", "%v was run %d times (want 1)", m, m.runs)
			continue
		}
		if m.exit == 0 || m.exit > waitRet {
			w.Violate("not-awaited", "not-awaited:group", "Group Wait returned at %d before %v returned", waitRet, m)
		}
		if m.outcome != poOK && !errors.Is(waitErr, m.err) {
			w.Violate("error-lost", "error-lost:group", "%v failed but errors.Is(Group.Wait(), its error) is false: %v", m, waitErr)
		}
	}
}

type job struct {
	id       int
	outcome  int
	err      error
	runs     int
	accepted bool
	addedAt  int64
	flav     string
}

func c11Pool(w *W) {
	h := &Hist{}
	handler := simrt.Choose(2) == 1
	workers := 1 + simrt.Choose(3)
	nJobs := simrt.Choose(9)
	var q *pubsub.Queue[fun.Worker]
	limited := simrt.Choose(3) == 0
	if limited {
		hl := 1 + simrt.Choose(3)
		q, _ = pubsub.NewQueue[fun.Worker](pubsub.QueueOptions{HardLimit: hl, SoftQuota: 1 + simrt.Choose(hl)})
	} else {
		q = pubsub.NewUnlimitedQueue[fun.Worker]()
	}
	var seen []error
	var s *srv.Service
	opts := []fun.OptionProvider[*fun.WorkerGroupConf]{fun.WorkerGroupConfNumWorkers(workers), fun.WorkerGroupConfContinueOnError(), fun.WorkerGroupConfContinueOnPanic()}
	if handler {
		s = srv.HandlerWorkerPool(q, func(err error) {
			if err != nil {
				seen = append(seen, err)
			}
		}, opts...)
	} else {
		s = srv.WorkerPool(q, opts...)
	}
	pctx, pcancel := context.WithCancel(w.Ctx)
	defer pcancel()
	if err := s.Start(pctx); err != nil {
		panic(err)
	}
	var jobs []*job
	for i := 0; i < nJobs; i++ {
		j := &job{id: i, outcome: 1 + simrt.Choose(3)}
		if handler && j.outcome == poPanic {
			j.outcome = poError // the handler form does not recover panics by contract
		}
		j.err = fmt.Errorf("job-%d-failure", i)
		if handler {
			// "all errors are passed to the observer function": whatever they
			// look like. (The aggregating WorkerPool "follows the semantics
			// configured by the options", under which io.EOF and friends are
			// not failures: C03's subject.)
			j.err, j.flav = newFlavErr("job-%d-failure", i)
		}
		jobs = append(jobs, j)
		delay := simrt.Choose(60)
		simrt.Spawn(fmt.Sprintf("submit%d", i), func() {
			simrt.WaitStep(simrt.Stamp() + delay)
			err := q.Add(func(context.Context) error {
				j.runs++
				stall()
				switch j.outcome {
				case poError:
					return j.err
				case poPanic:
					panic(j.err)
				}
				return nil
			})
			j.accepted = err == nil
			j.addedAt = h.Tick()
		})
	}
	raceStop := w.faulty() && simrt.Choose(2) == 1
	// the pool is ended either through the service (Close: context cancelled,
	// Shutdown closes the queue) or by closing the work queue itself (drain and
	// stop: the context stays live, so every job whose Add returned nil was
	// accepted "while the pool keeps running" and must run, race or not)
	drain := simrt.Choose(3) == 0
	end := func() {
		if drain {
			_ = q.Close()
		} else {
			s.Close()
		}
	}
	var stopAt int64
	if raceStop {
		at := simrt.Choose(120)
		simrt.Spawn("fault:close", func() {
			simrt.WaitStep(simrt.Stamp() + at)
			stopAt = h.Tick()
			end()
		})
		w.Fault("close")
		if drain {
			w.Fault("queue-close-racing-adds")
		}
	}
	simrt.Quiesce()
	if stopAt == 0 {
		stopAt = h.Tick()
		end()
		w.Fault("close-at-quiescence")
	}
	var waitErr error
	waited := false
	simrt.Spawn("pool-wait", func() {
		waitErr = s.Wait()
		waited = true
	})
	simrt.Quiesce()
	name := "WorkerPool"
	if handler {
		name = "HandlerWorkerPool"
	}
	w.Config("%s workers=%d jobs=%d limited=%v raceStop=%v drain=%v", name, workers, nJobs, limited, raceStop, drain)
	w.State(fmt.Sprintf("%s w=%d rs=%v", name, workers, raceStop))
	for _, j := range jobs {
		w.hist = append(w.hist, fmt.Sprintf("job%d %s/%s accepted=%v@%d runs=%d", j.id, poNames[j.outcome], j.flav, j.accepted, j.addedAt, j.runs))
	}
	w.hist = append(w.hist, fmt.Sprintf("stop@%d wait=%v seen=%v", stopAt, waitErr, seen))
	if !waited {
		w.Violate("pool-wait-blocked", "pool-wait-blocked:"+name, "%s: Wait has not returned after Close", name)
		return
	}
	for _, j := range jobs {
		if j.runs > 1 {
			w.Violate("job-ran-twice", "job-ran-twice:"+name, "%s: job %d ran %d times", name, j.id, j.runs)
		}
		if !j.accepted {
			if j.runs > 0 {
				w.Violate("rejected-job-ran", "rejected-job-ran:"+name, "%s: job %d was rejected by Add but ran", name, j.id)
			}
			continue
		}
		// "exactly once when it is accepted while the pool keeps running": judged
		// when the pool was only stopped at quiescence; a Close racing the
		// submission may legitimately leave an accepted job unrun (at most once).
		if drain && j.runs != 1 {
			w.Violate("job-lost", "job-lost:"+name+":queue-closed", "%s: job %d was accepted (Add returned nil at %d) and the pool was ended by closing its queue at %d, its context still live, but the job ran %d times", name, j.id, j.addedAt, stopAt, j.runs)
		}
		if !raceStop && j.addedAt < stopAt && j.runs != 1 {
			w.Violate("job-lost", "job-lost:"+name, "%s: job %d was accepted at %d while the pool kept running (stopped at %d) but ran %d times", name, j.id, j.addedAt, stopAt, j.runs)
		}
		if j.runs == 1 && j.outcome != poOK {
			found := errors.Is(waitErr, j.err)
			for _, e := range seen {
				if errors.Is(e, j.err) {
					found = true
				}
			}
			if !found {
				w.Violate("error-lost", "error-lost:"+name, "%s: job %d failed with %v which reached neither Wait (%v) nor the handler (%v)", name, j.id, j.err, waitErr, seen)
			}
		}
	}
}

func c11Cleanup(w *W) {
	h := &Hist{}
	q := pubsub.NewUnlimitedQueue[fun.Worker]()
	timeout := time.Duration(0)
	if simrt.Choose(2) == 1 {
		timeout = time.Duration(10+simrt.Choose(40)) * time.Millisecond // on the fake clock
	}
	s := srv.Cleanup(q, timeout)
	pctx, pcancel := context.WithCancel(w.Ctx)
	defer pcancel()
	if err := s.Start(pctx); err != nil {
		panic(err)
	}
	nJobs := simrt.Choose(7)
	var jobs []*job
	for i := 0; i < nJobs; i++ {
		j := &job{id: i, outcome: 1 + simrt.Choose(3)}
		j.err, j.flav = newFlavErr("cleanup-%d-failure", i)
		jobs = append(jobs, j)
		delay := simrt.Choose(50)
		blocks := timeout > 0 && simrt.Choose(3) == 0 // runs until the cleanup timeout expires
		simrt.Spawn(fmt.Sprintf("register%d", i), func() {
			simrt.WaitStep(simrt.Stamp() + delay)
			err := q.Add(func(ctx context.Context) error {
				j.runs++
				stall()
				if blocks {
					t := simrt.Pre("harness:cleanup-wait")
					<-ctx.Done()
					simrt.Post(t)
				}
				switch j.outcome {
				case poError:
					return j.err
				case poPanic:
					panic(j.err)
				}
				return nil
			})
			j.accepted = err == nil
			j.addedAt = h.Tick()
		})
	}
	mode := simrt.Choose(2) // 0 Close, 1 parent cancel
	race := w.faulty() && simrt.Choose(2) == 1
	var stopAt int64
	stop := func() {
		stopAt = h.Tick()
		if mode == 0 {
			s.Close()
		} else {
			pcancel()
		}
	}
	ranBeforeShutdown := false
	if race {
		at := simrt.Choose(100)
		simrt.Spawn("fault:shutdown", func() {
			simrt.WaitStep(simrt.Stamp() + at)
			stop()
		})
		w.Fault("shutdown")
	}
	simrt.Quiesce()
	for _, j := range jobs {
		if j.runs > 0 && stopAt == 0 {
			ranBeforeShutdown = true
		}
	}
	if stopAt == 0 {
		stop()
		w.Fault("shutdown-at-quiescence")
	}
	var waitErr error
	waited := false
	simrt.Spawn("cleanup-wait", func() {
		waitErr = s.Wait()
		waited = true
	})
	simrt.Quiesce()
	w.Config("Cleanup jobs=%d mode=%d race=%v timeout=%v", nJobs, mode, race, timeout)
	w.State(fmt.Sprintf("Cleanup m=%d r=%v", mode, race))
	for _, j := range jobs {
		w.hist = append(w.hist, fmt.Sprintf("cleanup%d %s/%s accepted=%v@%d runs=%d", j.id, poNames[j.outcome], j.flav, j.accepted, j.addedAt, j.runs))
	}
	w.hist = append(w.hist, fmt.Sprintf("stop@%d wait=%v", stopAt, waitErr))
	if !waited {
		w.Violate("cleanup-wait-blocked", "cleanup-wait-blocked", "Cleanup service: Wait has not returned after shutdown")
		return
	}
	if ranBeforeShutdown {
		w.Violate("cleanup-ran-early", "cleanup-ran-early", "a cleanup function ran before the service was shut down")
	}
	for _, j := range jobs {
		if j.runs > 1 {
			w.Violate("cleanup-ran-twice", "cleanup-ran-twice", "cleanup function %d ran %d times", j.id, j.runs)
		}
		if j.accepted && j.addedAt < stopAt && j.runs != 1 {
			w.Violate("cleanup-lost", "cleanup-lost", "cleanup function %d was accepted at %d, before the shutdown at %d, but ran %d times", j.id, j.addedAt, stopAt, j.runs)
		}
		if j.runs == 1 && j.outcome != poOK && !errors.Is(waitErr, j.err) {
			w.Violate("error-lost", "error-lost:Cleanup", "cleanup function %d failed with %v but errors.Is(Wait(), it) is false: %v", j.id, j.err, waitErr)
		}
	}
}

func init() {
	Register(&Workload{Prop: "C11", Name: "orchestrator", Faulty: true, MaxSteps: 20000, Cells: []int{6}, Run: c11Orchestrator})
	Register(&Workload{Prop: "C11", Name: "group", MaxSteps: 20000, Run: c11Group})
	Register(&Workload{Prop: "C11", Name: "pool", Faulty: true, MaxSteps: 20000, Cells: []int{2, 3, 9}, Run: c11Pool})
	Register(&Workload{Prop: "C11", Name: "cleanup", Faulty: true, MaxSteps: 20000, Run: c11Cleanup})
}
