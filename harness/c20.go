package harness

import (
	"context"
	"errors"
	"fmt"
	"io"

	"github.com/tychoish/fun"
	"github.com/tychoish/fun/pubsub"
	"verif/simrt"
)

// C20 — non-destructive Queue/Deque iterators see every item in order and never crash.

type iterRec struct {
	kind     string
	blocking bool
	yielded  []int
	state    int // 0 not started 1 running 2 returned
	err      error
	task     string
	ctx      context.Context
	cancel   context.CancelFunc
	canceled bool
}

func c20Run(w *W, removals bool) {
	useDeque := simrt.Choose(2) == 1
	var q *pubsub.Queue[int]
	var dq *pubsub.Deque[int]
	type variant struct {
		name     string
		blocking bool
		reverse  bool
		make     func() func(context.Context) (int, error)
	}
	var variants []variant
	fromIter := func(mk func() *fun.Iterator[int]) func() func(context.Context) (int, error) {
		return func() func(context.Context) (int, error) {
			it := mk()
			return func(ctx context.Context) (int, error) { return it.ReadOne(ctx) }
		}
	}
	if useDeque {
		dq = pubsub.NewUnlimitedDeque[int]()
		variants = []variant{
			{"Deque.Iterator", false, false, fromIter(dq.Iterator)},
			{"Deque.IteratorReverse", false, true, fromIter(dq.IteratorReverse)},
			{"Deque.Producer", false, false, func() func(context.Context) (int, error) { return dq.Producer() }},
			{"Deque.ProducerReverse", false, true, func() func(context.Context) (int, error) { return dq.ProducerReverse() }},
			{"Deque.ProducerBlocking", true, false, func() func(context.Context) (int, error) { return dq.ProducerBlocking() }},
			{"Deque.ProducerReverseBlocking", true, true, func() func(context.Context) (int, error) { return dq.ProducerReverseBlocking() }},
		}
	} else {
		q = pubsub.NewUnlimitedQueue[int]()
		variants = []variant{
			{"Queue.Iterator", true, false, fromIter(q.Iterator)},
			{"Queue.Producer", true, false, func() func(context.Context) (int, error) { return q.Producer() }},
		}
	}
	v := variants[simrt.Choose(len(variants))]
	nIters := 1 + simrt.Choose(2)
	nAdd := simrt.Choose(6)
	prefill := simrt.Choose(3)
	nRem := 0
	if removals {
		nRem = 1 + simrt.Choose(4)
	}
	endMode := simrt.Choose(2) // 0 close, 1 cancel
	w.Config("%s iters=%d prefill=%d adds=%d removals=%d end=%s", v.name, nIters, prefill, nAdd, nRem, []string{"close", "cancel"}[endMode])
	var added []int // successfully added, in container order (one adder at a time)
	add := func(x int) {
		var err error
		switch {
		case !useDeque:
			err = q.Add(x)
		case v.reverse:
			err = dq.PushFront(x)
		default:
			err = dq.PushBack(x)
		}
		if err == nil {
			added = append(added, x)
		}
	}
	for i := 0; i < prefill; i++ {
		add(100 + i)
	}
	// Close may also race the adds (and the parked iterators' wake-ups): every
	// item whose add succeeded must still be yielded before io.EOF
	// (under removals too: a queue that is closed while it still holds items
	// and is then drained must not wedge an iterator)
	raceClose := endMode == 0 && simrt.Choose(3) == 0
	closeAt := simrt.Choose(80)
	var its []*iterRec
	for i := 0; i < nIters; i++ {
		r := &iterRec{kind: v.name, blocking: v.blocking}
		if endMode == 0 && simrt.Choose(4) == 0 {
			// an uncancellable caller (the run ends with Close)
			r.ctx, r.cancel = context.Background(), func() {}
		} else {
			r.ctx, r.cancel = context.WithCancel(w.Ctx)
		}
		its = append(its, r)
		simrt.Spawn("iter:"+v.name, func() {
			r.task = simrt.Self()
			next := v.make()
			r.state = 1
			for {
				x, err := next(r.ctx)
				if err != nil {
					r.err = err
					break
				}
				r.yielded = append(r.yielded, x)
			}
			r.state = 2
		})
	}
	if raceClose {
		simrt.Spawn("fault:close", func() {
			simrt.WaitStep(closeAt)
			if useDeque {
				_ = dq.Close()
			} else {
				_ = q.Close()
			}
		})
		w.Fault("close-racing-adds")
	}
	if nAdd > 0 {
		simrt.Spawn("adder", func() {
			for i := 0; i < nAdd; i++ {
				add(200 + i)
			}
		})
	}
	var removed []int
	if nRem > 0 {
		// a deque can also lose the element at the iterator's far end
		farEnd := useDeque && simrt.Choose(3) == 0
		simrt.Spawn("remover", func() {
			for i := 0; i < nRem; i++ {
				var x int
				var ok bool
				if useDeque {
					if v.reverse != farEnd {
						x, ok = dq.PopBack()
					} else {
						x, ok = dq.PopFront()
					}
				} else {
					x, ok = q.Remove()
				}
				if ok {
					removed = append(removed, x)
				}
				simrt.Yield()
			}
		})
		w.Fault("concurrent-remove")
	}
	unseen := func(r *iterRec) []int {
		var out []int
		for _, a := range added {
			gone := false
			for _, x := range removed {
				gone = gone || x == a
			}
			for _, x := range r.yielded {
				gone = gone || x == a
			}
			if !gone {
				out = append(out, a)
			}
		}
		return out
	}
	simrt.Quiesce()
	if removals {
		// "may omit removed items": an item that was never removed must not be
		// omitted. A blocking iterator that is parked while such an item sits in
		// the container gets one more chance (a further item is added, so even an
		// implementation that only looks again on the next wake-up delivers it);
		// if it still has not yielded the item it has skipped it for good.
		probe := false
		for _, r := range its {
			if r.blocking && r.state == 1 && len(unseen(r)) > 0 {
				probe = true
			}
		}
		for i, r := range its {
			// "without remaining blocked while an unseen item is present",
			// for "a Remove-to-empty landing between the iterator's look at the
			// tail and its decision to wait": nothing else can run now, so a
			// parked iterator with a never-removed, never-yielded item in the
			// container stays parked until somebody adds something else
			if r.blocking && r.state == 1 {
				if u := unseen(r); len(u) > 0 {
					site := simrt.SiteOf(r.task)
					w.Violate("blocked-with-unseen-item", fmt.Sprintf("blocked-with-unseen-item:%s:after-removals@%s", v.name, site),
						"iterator %d is blocked at %s having yielded %v; %v were added and never removed (removed: %v) and nothing else can run", i, site, r.yielded, u, removed)
				}
			}
		}
		if len(w.Out.Violations) > 0 {
			return
		}
		if probe {
			w.Probe("iterator-parked-with-unseen-item-after-removals")
			before := make([][]int, len(its))
			for i, r := range its {
				before[i] = unseen(r)
			}
			add(900)
			simrt.Quiesce()
			for i, r := range its {
				if !(r.blocking && r.state == 1) {
					continue
				}
				still := unseen(r)
				for _, a := range before[i] {
					for _, b := range still {
						if a == b {
							site := simrt.SiteOf(r.task)
							w.Violate("omitted-present-item", fmt.Sprintf("omitted-present-item:%s@%s", v.name, site),
								"iterator %d is blocked at %s having yielded %v; %d was added, never removed (removed: %v), is still in the container and was not yielded even after a further item was added", i, site, r.yielded, a, removed)
							break
						}
					}
				}
			}
		}
	}
	inAdded := func(x int) bool {
		for _, a := range added {
			if a == x {
				return true
			}
		}
		return false
	}
	checkSeq := func(phase string, final bool) {
		for i, r := range its {
			for _, x := range r.yielded {
				if !inAdded(x) {
					w.Violate("invented-value", "invented-value:"+v.name, "%s: iterator %d yielded %d which was never added", phase, i, x)
				}
			}
			if removals {
				// "finish with io.EOF once the container is closed" and "may omit
				// removed items" - no others: an iterator that ended because of
				// Close has yielded everything that was added and never removed
				if final && endMode == 0 && r.blocking && r.state == 2 && !r.canceled && errors.Is(r.err, io.EOF) {
					if u := unseen(r); len(u) > 0 {
						w.Violate("skipped-items", "skipped-items:"+v.name+":after-removals", "%s: iterator %d finished (%v) having yielded %v; %v were added, never removed (removed: %v) and never yielded", phase, i, r.err, r.yielded, u, removed)
					}
				}
				continue
			}
			for k, x := range r.yielded {
				if k >= len(added) || added[k] != x {
					w.Violate("order", "order:"+v.name, "%s: iterator %d yielded %v, not a prefix of the add order %v", phase, i, r.yielded, added)
					break
				}
			}
			if r.blocking && r.state == 1 && len(r.yielded) < len(added) {
				site := simrt.SiteOf(r.task)
				w.Violate("blocked-with-unseen-item", fmt.Sprintf("blocked-with-unseen-item:%s@%s", v.name, site),
					"%s: iterator %d is blocked at %s having yielded %v while %v are present and nothing else can run", phase, i, site, r.yielded, added)
			}
			if r.blocking && final && r.state == 2 && len(r.yielded) < len(added) && !r.canceled {
				w.Violate("skipped-items", "skipped-items:"+v.name, "%s: iterator %d finished (%v) having yielded %v of %v", phase, i, r.err, r.yielded, added)
			}
		}
	}
	checkSeq("quiescence-1", raceClose)
	if !raceClose {
		// nothing has closed the container or ended a context yet: a blocking
		// iterator waits for more, whatever was removed under it
		for i, r := range its {
			if r.blocking && r.state == 2 {
				w.Violate("ended-while-open", "ended-while-open:"+v.name, "blocking iterator %d ended with %v (having yielded %v) although the container is open and its context is live", i, r.err, r.yielded)
			}
		}
	}
	for _, r := range its {
		if !r.blocking && r.state != 2 {
			w.Violate("non-blocking-iterator-blocked", "non-blocking-iterator-blocked:"+v.name, "non-blocking iterator still running at quiescence (%s)", simrt.SiteOf(r.task))
		}
		if !r.blocking && r.state == 2 && !errors.Is(r.err, io.EOF) {
			w.Violate("wrong-end", "wrong-end:"+v.name, "non-blocking iterator ended with %v, want io.EOF", r.err)
		}
	}
	if len(w.Out.Violations) > 0 {
		return
	}
	if endMode == 0 {
		if useDeque {
			_ = dq.Close()
		} else {
			_ = q.Close()
		}
		if !raceClose {
			w.Fault("close")
		}
	} else {
		for _, r := range its {
			r.canceled = true
			r.cancel()
		}
		w.Fault("cancel")
	}
	simrt.Quiesce()
	checkSeq("after-"+[]string{"close", "cancel"}[endMode], true)
	for i, r := range its {
		if r.state != 2 {
			site := simrt.SiteOf(r.task)
			if site == "exit" {
				continue // the task panicked; reported as a panic
			}
			w.Violate("blocked-after-end", fmt.Sprintf("blocked-after-%s:%s@%s", []string{"close", "cancel"}[endMode], v.name, site),
				"iterator %d still blocked at %s after %s", i, site, []string{"Close", "cancel"}[endMode])
			continue
		}
		if endMode == 0 && !errors.Is(r.err, io.EOF) {
			w.Violate("wrong-end", "wrong-end:"+v.name, "iterator %d ended with %v after Close, want io.EOF", i, r.err)
		}
		if endMode == 1 && r.blocking && !errors.Is(r.err, context.Canceled) && !errors.Is(r.err, io.EOF) {
			w.Violate("wrong-end", "wrong-end:"+v.name, "iterator %d ended with %v after cancel", i, r.err)
		}
	}
	for _, r := range its {
		w.hist = append(w.hist, fmt.Sprintf("%s yielded %v err=%v", r.kind, r.yielded, r.err))
	}
}

func init() {
	Register(&Workload{Prop: "C20", Name: "iter", MaxSteps: 6000, Run: func(w *W) { c20Run(w, false) }})
	Register(&Workload{Prop: "C20", Name: "iter-removals", Faulty: true, MaxSteps: 6000, Run: func(w *W) { c20Run(w, true) }})
}
