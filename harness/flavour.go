package harness

import (
	"context"
	"fmt"
	"io"

	"github.com/tychoish/fun"
	"github.com/tychoish/fun/ers"
	"github.com/tychoish/fun/pubsub"
	"verif/simrt"
)

// flavErr is a failure a harness callback returns (or panics with). It is
// attributable (errors.Is matches the pointer) and may additionally wrap one
// of the sentinels the library treats specially in other places: io.EOF,
// context errors, ErrQueueClosed, ErrIteratorSkip, ErrCurrentOpAbort. Where a
// property says "every error is surfaced" without exempting such values, a
// failure that merely looks terminal must be surfaced like any other.
type flavErr struct {
	name  string
	inner error
}

func (e *flavErr) Error() string {
	if e.inner != nil {
		return e.name + ": " + e.inner.Error()
	}
	return e.name
}
func (e *flavErr) Unwrap() error { return e.inner }

var flavourInner = []error{nil, io.EOF, context.Canceled, context.DeadlineExceeded, pubsub.ErrQueueClosed, fun.ErrIteratorSkip, ers.ErrCurrentOpAbort}
var flavourNames = []string{"plain", "wraps-EOF", "wraps-Canceled", "wraps-DeadlineExceeded", "wraps-ErrQueueClosed", "wraps-ErrIteratorSkip", "wraps-ErrCurrentOpAbort"}

// newFlavErr draws a flavour from the tape: plain three times out of four.
func newFlavErr(format string, a ...any) (*flavErr, string) {
	k := 0
	if simrt.Choose(4) == 3 {
		k = 1 + simrt.Choose(len(flavourInner)-1)
	}
	return &flavErr{name: fmt.Sprintf(format, a...), inner: flavourInner[k]}, flavourNames[k]
}
