package harness

import (
	"fmt"
	"strings"
	"time"

	"github.com/anishathalye/porcupine"
)

// HOp is one recorded operation. Call/Ret are positions in the run's total
// event order (one task executes at a time, so a shared counter is a total
// order consistent with real time).
type HOp struct {
	Client  int
	In      any
	Out     any
	Call    int64
	Ret     int64
	Pending bool
}

// Pending is the output of an operation that had not returned when the run
// ended; models treat it as "may or may not have taken effect".
type Pending struct{}

type Hist struct {
	ops   []*HOp
	clock int64
}

func (h *Hist) Invoke(client int, in any) *HOp {
	h.clock++
	op := &HOp{Client: client, In: in, Call: h.clock, Pending: true}
	h.ops = append(h.ops, op)
	return op
}

func (h *Hist) Return(op *HOp, out any) {
	h.clock++
	op.Ret = h.clock
	op.Out = out
	op.Pending = false
}

func (h *Hist) Now() int64  { return h.clock }
func (h *Hist) Tick() int64 { h.clock++; return h.clock }

func (h *Hist) Ops() []*HOp { return h.ops }

func (h *Hist) Strings() []string {
	var out []string
	for _, op := range h.ops {
		if op.Pending {
			out = append(out, fmt.Sprintf("c%d [%d,-) %v -> pending", op.Client, op.Call, op.In))
		} else {
			out = append(out, fmt.Sprintf("c%d [%d,%d] %v -> %v", op.Client, op.Call, op.Ret, op.In, op.Out))
		}
	}
	return out
}

// CheckLin checks the history against a nondeterministic sequential model
// whose states are strings.
func CheckLin(w *W, h *Hist, init string, step func(state string, in, out any) []string, sig string) {
	if len(h.ops) == 0 {
		return
	}
	if len(h.ops) > 60 {
		w.Inconclusive("history-too-long")
		return
	}
	nm := porcupine.NondeterministicModel{
		Init: func() []interface{} { return []interface{}{init} },
		Step: func(state, in, out interface{}) []interface{} {
			ns := step(state.(string), in, out)
			r := make([]interface{}, len(ns))
			for i := range ns {
				r[i] = ns[i]
			}
			return r
		},
		Equal: func(a, b interface{}) bool { return a.(string) == b.(string) },
	}
	end := h.clock + 1
	var ops []porcupine.Operation
	for _, op := range h.ops {
		o := porcupine.Operation{ClientId: op.Client, Input: op.In, Call: op.Call, Output: op.Out, Return: op.Ret}
		if op.Pending {
			o.Output = Pending{}
			end++
			o.Return = end
		}
		ops = append(ops, o)
	}
	res := porcupine.CheckOperationsTimeout(nm.ToModel(), ops, 20*time.Second)
	switch res {
	case porcupine.Illegal:
		w.Violate("non-linearizable", sig, "history has no linearization against the sequential model:\n  %s", strings.Join(h.Strings(), "\n  "))
	case porcupine.Unknown:
		w.Inconclusive("porcupine-unknown")
	}
}
