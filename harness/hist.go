package harness

import (
	"fmt"
	"sort"
	"strings"
	"time"

	"github.com/anishathalye/porcupine"
)

// HOp is one recorded operation. Call/Ret are positions in the run's total
// event order (one task executes at a time, so a shared counter is a total
// order consistent with real time).
type HOp struct {
	Client  int
	In      any
	Out     any
	Call    int64
	Ret     int64
	Pending bool
}

// Pending is the output of an operation that had not returned when the run
// ended; models treat it as "may or may not have taken effect".
type Pending struct{}

type Hist struct {
	ops   []*HOp
	clock int64
}

func (h *Hist) Invoke(client int, in any) *HOp {
	h.clock++
	op := &HOp{Client: client, In: in, Call: h.clock, Pending: true}
	h.ops = append(h.ops, op)
	return op
}

func (h *Hist) Return(op *HOp, out any) {
	h.clock++
	op.Ret = h.clock
	op.Out = out
	op.Pending = false
}

func (h *Hist) Now() int64  { return h.clock }
func (h *Hist) Tick() int64 { h.clock++; return h.clock }

func (h *Hist) Ops() []*HOp { return h.ops }

func (h *Hist) Strings() []string {
	var out []string
	for _, op := range h.ops {
		if op.Pending {
			out = append(out, fmt.Sprintf("c%d [%d,-) %v -> pending", op.Client, op.Call, op.In))
		} else {
			out = append(out, fmt.Sprintf("c%d [%d,%d] %v -> %v", op.Client, op.Call, op.Ret, op.In, op.Out))
		}
	}
	return out
}

// CheckLin checks the history against a nondeterministic sequential model
// whose states are strings.
func CheckLin(w *W, h *Hist, init string, step func(state string, in, out any) []string, sig string) {
	switch linResult(w, h, init, step) {
	case porcupine.Illegal:
		w.Violate("non-linearizable", sig, "history has no linearization against the sequential model:\n  %s", strings.Join(h.Strings(), "\n  "))
	}
}

// Filter returns a copy of the history holding the operations keep accepts.
func (h *Hist) Filter(keep func(*HOp) bool) *Hist {
	out := &Hist{clock: h.clock}
	for _, op := range h.ops {
		if keep(op) {
			out.ops = append(out.ops, op)
		}
	}
	return out
}

// linResult runs porcupine; Unknown (time-out, history too long, empty) is
// recorded as inconclusive by the caller's W.
func linResult(w *W, h *Hist, init string, step func(state string, in, out any) []string) porcupine.CheckResult {
	if len(h.ops) == 0 {
		return porcupine.Ok
	}
	if len(h.ops) > 60 {
		w.Inconclusive("history-too-long")
		return porcupine.Unknown
	}
	nm := porcupine.NondeterministicModel{
		Init: func() []interface{} { return []interface{}{init} },
		Step: func(state, in, out interface{}) []interface{} {
			ns := step(state.(string), in, out)
			r := make([]interface{}, len(ns))
			for i := range ns {
				r[i] = ns[i]
			}
			return r
		},
		Equal: func(a, b interface{}) bool { return a.(string) == b.(string) },
	}
	end := h.clock + 1
	var ops []porcupine.Operation
	for _, op := range h.ops {
		o := porcupine.Operation{ClientId: op.Client, Input: op.In, Call: op.Call, Output: op.Out, Return: op.Ret}
		if op.Pending {
			o.Output = Pending{}
			end++
			o.Return = end
		}
		ops = append(ops, o)
	}
	res := porcupine.CheckOperationsTimeout(nm.ToModel(), ops, 20*time.Second)
	if res == porcupine.Unknown {
		w.Inconclusive("porcupine-unknown")
	}
	return res
}

// blockedObs is the input of a synthetic observation "operation Op was still
// blocked when the system was quiescent": legal only in a state in which Op's
// blocking condition holds. It is placed at the quiescence point, and the
// blocked operations' own invocations are moved behind it (a blocked
// operation has had no effect, so it is as good as invoked afterwards).
const blockedPrefix = "Blocked:"

// ObserveBlocked adds one observation per pending operation (harness, at
// quiescence) and returns how many there were.
func (h *Hist) ObserveBlocked(mk func(op string) any, nameOf func(in any) string) int {
	var pend []*HOp
	for _, op := range h.ops {
		if op.Pending {
			pend = append(pend, op)
		}
	}
	for _, op := range pend {
		o := h.Invoke(90, mk(blockedPrefix+nameOf(op.In)))
		h.Return(o, struct{}{})
	}
	for _, op := range pend {
		op.Call = h.Tick()
	}
	return len(pend)
}

// checkBlockedAtQuiescence is C07's model-based clause: the history without
// the observations must be linearizable (otherwise it is C05/C06's business and
// nothing is judged here); with them it must still be.
func checkBlockedAtQuiescence(w *W, h *Hist, init string, step func(state string, in, out any) []string, isObs func(in any) bool, typ string) {
	base := h.Filter(func(op *HOp) bool { return !isObs(op.In) })
	switch linResult(w, base, init, step) {
	case porcupine.Illegal:
		w.Inconclusive("not-linearizable-without-observations")
		return
	case porcupine.Unknown:
		return
	}
	if linResult(w, h, init, step) == porcupine.Illegal {
		var names []string
		for _, op := range h.ops {
			if isObs(op.In) {
				names = append(names, fmt.Sprint(op.In))
			}
		}
		sort.Strings(names)
		w.Violate("blocked-while-enabled", "blocked-while-enabled:"+typ+":model:"+names[0], "at quiescence %v although, in every linearization of the completed operations, the condition of at least one of them holds (or the container is closed):\n  %s", names, strings.Join(h.Strings(), "\n  "))
	}
}
