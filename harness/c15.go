package harness

import (
	"context"
	"errors"
	"fmt"
	"io"

	"github.com/tychoish/fun"
	"github.com/tychoish/fun/adt"
	"github.com/tychoish/fun/ft"
	"verif/simrt"
)

// C15 — function wrappers keep their execution-count, exclusion and waiting contracts.

// probe instruments the wrapped function.
type probe struct {
	h       *Hist
	execs   int
	running int
	maxConc int
	enters  []int64
	exits   []int64
	byTask  map[string]int // executions per calling task
}

func (p *probe) body() int {
	if p.byTask == nil {
		p.byTask = map[string]int{}
	}
	p.byTask[simrt.Self()]++
	p.execs++
	id := p.execs
	p.running++
	if p.running > p.maxConc {
		p.maxConc = p.running
	}
	p.enters = append(p.enters, p.h.Tick())
	stall()
	p.exits = append(p.exits, p.h.Tick())
	p.running--
	return id
}

type callRec struct {
	invoke, ret int64
	val         int
	err         error
	done        bool
	executed    bool // the wrapped function ran inside this call
}

type wrapped struct {
	name string
	call func(ctx context.Context, arg int) (int, error) // value 0 if the form has no value
	val  bool                                            // result value is meaningful
	errv bool                                            // result error is meaningful
}

var errPlanned = errors.New("planned-error")

func onceForms(p *probe, withErr bool) []wrapped {
	res := func(id int) error {
		if withErr {
			return errPlanned
		}
		return nil
	}
	wk := fun.Worker(func(context.Context) error { return res(p.body()) }).Once()
	op := fun.Operation(func(context.Context) { p.body() }).Once()
	pr := fun.Producer[int](func(context.Context) (int, error) { id := p.body(); return id + 100, res(id) }).Once()
	pc := fun.Processor[int](func(context.Context, int) error { return res(p.body()) }).Once()
	hd := fun.Handler[int](func(int) { p.body() }).Once()
	ftr := fun.Future[int](func() int { return p.body() + 100 }).Once()
	ao := adt.NewOnce(func() int { return p.body() + 100 })
	ao2 := &adt.Once[int]{}
	mn := adt.Mnemonize(func() int { return p.body() + 100 })
	fo := ft.Once(func() { p.body() })
	fod := ft.OnceDo(func() int { return p.body() + 100 })
	return []wrapped{
		{"Worker.Once", func(ctx context.Context, a int) (int, error) { return 0, wk(ctx) }, false, true},
		{"Operation.Once", func(ctx context.Context, a int) (int, error) { op(ctx); return 0, nil }, false, false},
		{"Producer.Once", func(ctx context.Context, a int) (int, error) { return pr(ctx) }, true, true},
		{"Processor.Once", func(ctx context.Context, a int) (int, error) { return 0, pc(ctx, a) }, false, true},
		{"Handler.Once", func(ctx context.Context, a int) (int, error) { hd(a); return 0, nil }, false, false},
		{"Future.Once", func(ctx context.Context, a int) (int, error) { return ftr(), nil }, true, false},
		{"adt.Once.Resolve", func(ctx context.Context, a int) (int, error) { return ao.Resolve(), nil }, true, false},
		{"adt.Once.Do", func(ctx context.Context, a int) (int, error) {
			ao2.Do(func() int { return p.body() + 100 })
			return ao2.Resolve(), nil
		}, true, false},
		{"adt.Mnemonize", func(ctx context.Context, a int) (int, error) { return mn(), nil }, true, false},
		{"ft.Once", func(ctx context.Context, a int) (int, error) { fo(); return 0, nil }, false, false},
		{"ft.OnceDo", func(ctx context.Context, a int) (int, error) { return fod(), nil }, true, false},
	}
}

func limitForms(p *probe, n int) []wrapped {
	wk := fun.Worker(func(context.Context) error { return fmt.Errorf("exec-%d", p.body()) }).Limit(n)
	pr := fun.Producer[int](func(context.Context) (int, error) { return p.body() + 100, nil }).Limit(n)
	pc := fun.Processor[int](func(context.Context, int) error { return fmt.Errorf("exec-%d", p.body()) }).Limit(n)
	ftr := fun.Future[int](func() int { return p.body() + 100 }).Limit(n)
	op := fun.Operation(func(context.Context) { p.body() }).Limit(n)
	errID := func(err error) int {
		var id int
		if err != nil {
			fmt.Sscanf(err.Error(), "exec-%d", &id)
		}
		return id + 100
	}
	return []wrapped{
		{"Worker.Limit", func(ctx context.Context, a int) (int, error) { return errID(wk(ctx)), nil }, true, false},
		{"Producer.Limit", func(ctx context.Context, a int) (int, error) { return pr(ctx) }, true, false},
		{"Processor.Limit", func(ctx context.Context, a int) (int, error) { return errID(pc(ctx, a)), nil }, true, false},
		{"Future.Limit", func(ctx context.Context, a int) (int, error) { return ftr(), nil }, true, false},
		{"Operation.Limit", func(ctx context.Context, a int) (int, error) { op(ctx); return 0, nil }, false, false},
	}
}

func lockForms(p *probe) []wrapped {
	wk := fun.Worker(func(context.Context) error { p.body(); return nil }).Lock()
	op := fun.Operation(func(context.Context) { p.body() }).Lock()
	pr := fun.Producer[int](func(context.Context) (int, error) { return p.body(), nil }).Lock()
	pc := fun.Processor[int](func(context.Context, int) error { p.body(); return nil }).Lock()
	hd := fun.Handler[int](func(int) { p.body() }).Lock()
	ftr := fun.Future[int](func() int { return p.body() }).Lock()
	tr := fun.Transform[int, int](func(_ context.Context, in int) (int, error) { return p.body(), nil }).Lock()
	return []wrapped{
		{"Worker.Lock", func(ctx context.Context, a int) (int, error) { return 0, wk(ctx) }, false, false},
		{"Operation.Lock", func(ctx context.Context, a int) (int, error) { op(ctx); return 0, nil }, false, false},
		{"Producer.Lock", func(ctx context.Context, a int) (int, error) { return pr(ctx) }, false, false},
		{"Processor.Lock", func(ctx context.Context, a int) (int, error) { return 0, pc(ctx, a) }, false, false},
		{"Handler.Lock", func(ctx context.Context, a int) (int, error) { hd(a); return 0, nil }, false, false},
		{"Future.Lock", func(ctx context.Context, a int) (int, error) { return ftr(), nil }, false, false},
		{"Transform.Lock", func(ctx context.Context, a int) (int, error) { return tr(ctx, a) }, false, false},
	}
}

func c15Concurrent(w *W) {
	h := &Hist{}
	p := &probe{h: h}
	family := simrt.Choose(3)
	var forms []wrapped
	limit := 1 + simrt.Choose(3)
	withErr := simrt.Choose(2) == 1
	switch family {
	case 0:
		forms = onceForms(p, withErr)
	case 1:
		forms = limitForms(p, limit)
	case 2:
		forms = lockForms(p)
	}
	f := forms[simrt.Choose(len(forms))]
	callers := 1 + simrt.Choose(4)
	var recs [][]*callRec
	total := 0
	for c := 0; c < callers; c++ {
		nc := 1 + simrt.Choose(3)
		total += nc
		rs := make([]*callRec, nc)
		for i := range rs {
			rs[i] = &callRec{}
		}
		recs = append(recs, rs)
		simrt.Spawn(fmt.Sprintf("caller%d:%s", c, f.name), func() {
			me := simrt.Self()
			for _, r := range rs {
				before := p.byTask[me]
				r.invoke = h.Tick()
				r.val, r.err = f.call(w.Ctx, 1)
				r.ret = h.Tick()
				r.executed = p.byTask[me] > before
				r.done = true
			}
		})
	}
	w.Config("%s callers=%d calls=%d limit=%d withErr=%v", f.name, callers, total, limit, withErr)
	w.State(f.name)
	simrt.Quiesce()
	for _, rs := range recs {
		for _, r := range rs {
			if !r.done {
				w.Violate("caller-stuck", "caller-stuck:"+f.name, "%s: a caller is still blocked at quiescence", f.name)
				return
			}
		}
	}
	sig := func(k string) string { return k + ":" + f.name }
	switch family {
	case 0:
		if p.execs != 1 {
			w.Violate("once-count", sig("once-count"), "%s: the function executed %d times for %d calls from %d goroutines", f.name, p.execs, total, callers)
			return
		}
		for _, rs := range recs {
			for _, r := range rs {
				if r.ret < p.exits[0] {
					w.Violate("returned-before-done", sig("returned-before-done"), "%s: a caller returned at %d before the single execution finished at %d", f.name, r.ret, p.exits[0])
				}
				if f.val && r.val != 101 {
					w.Violate("result-not-shared", sig("result-not-shared"), "%s: a caller observed value %d, the execution produced 101", f.name, r.val)
				}
				if f.errv && withErr != (r.err != nil) {
					w.Violate("result-not-shared", sig("result-not-shared"), "%s: a caller observed error %v, the execution returned error=%v", f.name, r.err, withErr)
				}
			}
		}
	case 1:
		want := limit
		if total < want {
			want = total
		}
		if p.execs != want {
			w.Violate("limit-count", sig("limit-count"), "%s: Limit(%d) executed %d times for %d calls (want %d)", f.name, limit, p.execs, total, want)
			return
		}
		if f.val && p.execs == limit {
			last := p.exits[limit-1]
			for _, rs := range recs {
				for _, r := range rs {
					if r.invoke > last && r.val != 100+limit {
						w.Violate("limit-last-result", sig("limit-last-result"), "%s: a call made after the %d-th execution finished returned %d, want the last result %d", f.name, limit, r.val, 100+limit)
					}
					// a call that did not run the function returns "the last
					// result": the result of the n-th execution, which does not
					// exist before that execution has finished
					if !r.executed && r.val != 100+limit {
						w.Violate("limit-stale-result", sig("limit-stale-result"), "%s: a call [%d,%d] that did not execute the function returned %d; the last (%d-th) execution [%d,%d] produced %d", f.name, r.invoke, r.ret, r.val, limit, p.enters[limit-1], last, 100+limit)
					}
					if !r.executed && r.ret < last {
						w.Violate("limit-returned-before-last", sig("limit-returned-before-last"), "%s: a call that did not execute the function returned at %d, before the last permitted execution finished at %d", f.name, r.ret, last)
					}
				}
			}
		}
	case 2:
		if p.execs != total {
			w.Violate("lock-count", sig("lock-count"), "%s: %d calls but %d executions", f.name, total, p.execs)
		}
		if p.maxConc > 1 {
			w.Violate("lock-overlap", sig("lock-overlap"), "%s: %d executions ran at the same time", f.name, p.maxConc)
		}
	}
}

// ---- background waiters ----

func c15Waiters(w *W) {
	h := &Hist{}
	p := &probe{h: h}
	kind := simrt.Choose(8)
	names := []string{"Operation.Signal", "Operation.Launch", "Worker.Signal", "Worker.Launch", "Worker.Background", "Worker.StartGroup", "Operation.StartGroup", "Processor.Background"}
	n := 1 + simrt.Choose(3)
	w.Config("%s n=%d", names[kind], n)
	w.State(names[kind])
	var waitRet int64
	waited := false
	var got error
	// waiter functions may be called more than once: in half of the runs a
	// first call is made with a context of its own that a fault task cancels at
	// a tape-chosen step ("unless the waiter's own context was cancelled"); the
	// call that is judged is the following one, made with a live context.
	abandon := simrt.Choose(2) == 1
	abandonAt := simrt.Choose(40)
	actx, acancel := context.WithCancel(w.Ctx)
	var firstRet int64
	var firstErr error
	firstDone := false
	canceledAt := int64(0)
	callWaiter := func(ctx context.Context, wait func(context.Context) error) error {
		if abandon {
			firstErr = wait(actx)
			firstRet = h.Tick()
			firstDone = true
		}
		return wait(ctx)
	}
	if abandon {
		simrt.Spawn("fault:cancel-first-wait", func() {
			simrt.WaitStep(abandonAt)
			canceledAt = h.Tick()
			acancel()
		})
	}
	// the context the background work is launched with is not the one the
	// waiter uses: it may end while the work (which ignores it) is still
	// running. The waiter, called with a live context, still has to wait.
	lctx, lcancel := context.WithCancel(w.Ctx)
	launchCancelledAt := int64(0)
	if simrt.Choose(3) == 0 {
		at := simrt.Choose(30)
		simrt.Spawn("fault:cancel-launch-context", func() {
			simrt.WaitStep(at)
			launchCancelledAt = h.Tick()
			lcancel()
		})
		w.Fault("launch-context-cancelled")
	}
	simrt.Spawn("starter:"+names[kind], func() {
		ctx := w.Ctx
		switch kind {
		case 0:
			ch := fun.Operation(func(context.Context) { p.body() }).Signal(lctx)
			hrecv(ch)
		case 1:
			wait := fun.Operation(func(context.Context) { p.body() }).Launch(lctx)
			_ = callWaiter(ctx, func(c context.Context) error { wait(c); return nil })
		case 2:
			ch := fun.Worker(func(context.Context) error { p.body(); return errPlanned }).Signal(lctx)
			got, _ = hrecv(ch)
		case 3:
			wait := fun.Worker(func(context.Context) error { p.body(); return errPlanned }).Launch(lctx)
			got = callWaiter(ctx, wait)
		case 4:
			var seen []error
			wait := fun.Worker(func(context.Context) error { p.body(); return errPlanned }).Background(lctx, func(err error) { seen = append(seen, err) })
			_ = callWaiter(ctx, func(c context.Context) error { wait(c); return nil })
			for _, e := range seen {
				if errors.Is(e, errPlanned) {
					got = e
				}
			}
		case 5:
			wait := fun.Worker(func(context.Context) error { p.body(); return errPlanned }).StartGroup(lctx, n)
			got = callWaiter(ctx, wait)
		case 6:
			wg := &fun.WaitGroup{}
			fun.Operation(func(context.Context) { p.body() }).StartGroup(lctx, wg, n)
			wg.Wait(ctx)
		case 7:
			wait := fun.Processor[int](func(context.Context, int) error { p.body(); return errPlanned }).Background(lctx, 1)
			got = callWaiter(ctx, wait)
		}
		waitRet = h.Tick()
		waited = true
		if firstDone && errors.Is(firstErr, errPlanned) && got == nil {
			got = firstErr // the first call already collected the result
		}
	})
	simrt.Quiesce()
	name := names[kind]
	if !waited {
		w.Violate("waiter-stuck", "waiter-stuck:"+name, "%s: the waiter never returned although the background function finished (%d executions)", name, p.execs)
		return
	}
	want := 1
	if kind == 5 || kind == 6 {
		want = n
	}
	if p.execs != want || len(p.exits) != want {
		w.Violate("background-count", "background-count:"+name, "%s: %d background executions finished, want %d", name, len(p.exits), want)
		return
	}
	if firstDone {
		w.Probe("waiter-first-call-with-own-context")
		for _, e := range p.exits {
			// the abandoned first call may come back early only because its own
			// context had been cancelled by then
			if e > firstRet && (canceledAt == 0 || canceledAt > firstRet) {
				w.Violate("waiter-returned-early", "waiter-returned-early:"+name+":first-call", "%s: a waiter call returned at %d (err=%v) before the background execution finished at %d although its context was still live (cancelled at %d)", name, firstRet, firstErr, e, canceledAt)
				break
			}
		}
	}
	for _, e := range p.exits {
		if e > waitRet {
			w.Violate("waiter-returned-early", "waiter-returned-early:"+name, "%s: the waiter, called with a live context (abandoned first call: %v, returned %v at %d), returned at %d before the background execution finished at %d", name, firstDone, firstErr, firstRet, waitRet, e)
			break
		}
	}
	// (the result travels to the waiter under the launch context: when that
	// ended before the work finished, the error may legitimately not arrive)
	resultCanTravel := launchCancelledAt == 0
	switch kind {
	case 2, 3, 4, 5, 7:
		if resultCanTravel && !errors.Is(got, errPlanned) {
			w.Violate("waiter-lost-error", "waiter-lost-error:"+name, "%s: the background function returned %v but the waiter observed %v", name, errPlanned, got)
		}
	}
}

// ---- sequential contracts: Retry, Join, hooks (single task; the simulator
// contributes only replay/shrinking here) ----

func c15Sequential(w *W) {
	kind := simrt.Choose(5)
	ctx := w.Ctx
	switch kind {
	case 0, 1: // Worker.Retry / Producer.Retry
		n := 1 + simrt.Choose(4)
		plan := make([]int, n+2)
		var pdesc []string
		for i := range plan {
			plan[i] = simrt.Choose(5) // 0 ok, 1 error, 2 skip, 3 EOF, 4 ctx canceled
			pdesc = append(pdesc, []string{"ok", "err", "skip", "eof", "ctx"}[plan[i]])
		}
		attempts := 0
		errs := []error{}
		step := func() error {
			if attempts >= len(plan) {
				attempts++ // far beyond n: reported below
				return nil
			}
			k := plan[attempts]
			attempts++
			switch k {
			case 1:
				e := fmt.Errorf("attempt-%d", attempts)
				errs = append(errs, e)
				return e
			case 2:
				return fun.ErrIteratorSkip
			case 3:
				return io.EOF
			case 4:
				return context.Canceled
			}
			return nil
		}
		var err error
		name := "Worker.Retry"
		if kind == 0 {
			err = fun.Worker(func(context.Context) error { return step() }).Retry(n)(ctx)
		} else {
			name = "Producer.Retry"
			_, err = fun.Producer[int](func(context.Context) (int, error) { return 1, step() }).Retry(n)(ctx)
		}
		w.Config("%s n=%d plan=%v", name, n, pdesc)
		w.State(name)
		// reference
		wantAttempts := 0
		outcome := "exhausted"
		for i := 0; i < n; i++ {
			wantAttempts++
			k := plan[i]
			if k == 0 {
				outcome = "ok"
				break
			}
			if k == 3 || k == 4 {
				outcome = "terminated"
				break
			}
		}
		if attempts > n {
			w.Violate("retry-too-many", "retry-too-many:"+name, "%s(%d) made %d attempts", name, n, attempts)
		}
		if attempts != wantAttempts {
			w.Violate("retry-attempts", "retry-attempts:"+name, "%s(%d) plan %v: %d attempts, want %d", name, n, pdesc, attempts, wantAttempts)
		}
		if outcome == "ok" && err != nil {
			w.Violate("retry-reported-after-success", "retry-reported-after-success:"+name, "%s(%d) plan %v: an attempt succeeded but the result is %v", name, n, pdesc, err)
		}
		if outcome == "exhausted" {
			for _, e := range errs {
				if !errors.Is(err, e) {
					w.Violate("retry-lost-error", "retry-lost-error:"+name, "%s(%d) plan %v: no attempt succeeded and %v is not in the result %v", name, n, pdesc, e, err)
					break
				}
			}
		}
	case 2, 3, 4: // Join / PreHook / PostHook order
		var order []string
		mark := func(s string) { order = append(order, s) }
		failAt := simrt.Choose(4) // 0 nobody fails
		var name string
		var want []string
		switch kind {
		case 2:
			name = "Worker.Join"
			mk := func(s string, i int) fun.Worker {
				return func(context.Context) error {
					mark(s)
					if failAt == i {
						return errPlanned
					}
					return nil
				}
			}
			err := mk("a", 1).Join(mk("b", 2), mk("c", 3))(ctx)
			want = []string{"a", "b", "c"}
			if failAt > 0 {
				want = want[:failAt]
				if !errors.Is(err, errPlanned) {
					w.Violate("join-lost-error", "join-lost-error:"+name, "%s: part %d failed but the result is %v", name, failAt, err)
				}
			}
		case 3:
			name = "Operation.Join+hooks"
			op := fun.Operation(func(context.Context) { mark("a") }).Join(func(context.Context) { mark("b") }, func(context.Context) { mark("c") })
			op = op.PreHook(func(context.Context) { mark("pre") }).PostHook(func() { mark("post") })
			op(ctx)
			want = []string{"pre", "a", "b", "c", "post"}
		case 4:
			name = "Processor/Producer/Handler hooks"
			pc := fun.Processor[int](func(context.Context, int) error { mark("proc"); return nil }).
				PreHook(func(context.Context) { mark("pre") }).PostHook(func() { mark("post") })
			_ = pc(ctx, 1)
			pr := fun.Producer[int](func(context.Context) (int, error) { mark("prod"); return 1, nil }).
				PreHook(func(context.Context) { mark("pre2") }).PostHook(func() { mark("post2") })
			_, _ = pr(ctx)
			hd := fun.Handler[int](func(int) { mark("h") }).PreHook(func(int) { mark("hpre") }).Join(func(int) { mark("hnext") })
			hd(1)
			wk := fun.Worker(func(context.Context) error { mark("w"); return nil }).PreHook(func(context.Context) { mark("wpre") }).PostHook(func() { mark("wpost") })
			_ = wk(ctx)
			want = []string{"pre", "proc", "post", "pre2", "prod", "post2", "hpre", "h", "hnext", "wpre", "w", "wpost"}
		}
		w.Config("%s failAt=%d", name, failAt)
		w.State(name)
		if fmt.Sprint(order) != fmt.Sprint(want) {
			w.Violate("order", "order:"+name, "%s: parts ran in order %v, want %v", name, order, want)
		}
	}
}

func init() {
	Register(&Workload{Prop: "C15", Name: "concurrent", MaxSteps: 6000, Run: c15Concurrent})
	Register(&Workload{Prop: "C15", Name: "waiters", MaxSteps: 6000, Run: c15Waiters})
	Register(&Workload{Prop: "C15", Name: "sequential", MaxSteps: 2000, Run: c15Sequential})
}
