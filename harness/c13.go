package harness

import (
	"bytes"
	"context"
	"encoding/json"
	"errors"
	"fmt"
	"io"
	"os"
	"regexp"
	"sort"
	"strings"
	"sync"

	"github.com/tychoish/fun"
	"github.com/tychoish/fun/adt"
	"github.com/tychoish/fun/dt"
	"github.com/tychoish/fun/erc"
	"github.com/tychoish/fun/ers"
	"github.com/tychoish/fun/pubsub"
	"verif/simrt"
)

// C13 — data-race freedom: the real race detector under simulator-chosen
// schedules. Harness tasks share NO harness memory (ThreadSanitizer does not
// see the simulator's serialisation); everything a task needs is drawn by the
// root before the task is spawned.

type method struct {
	name string
	fn   func(ctx context.Context, arg int)
}

// a target builds the shared object once and returns a per-task method table.
type target struct {
	name string
	mk   func() func() []method
}

var c13Targets []target

func c13Driver(w *W, tg target, pairs bool) {
	perTask := tg.mk()
	probe := perTask()
	nTasks := 2 + simrt.Choose(3)
	maxCalls := 6
	if pairs {
		nTasks, maxCalls = 2, 1
	}
	type script struct {
		ops    []int
		args   []int
		cancel []int // >= 0: the call gets a context of its own, ended that many scheduling points into it
	}
	scripts := make([]script, nTasks)
	var desc []string
	for t := range scripts {
		n := 1 + simrt.Choose(maxCalls)
		if pairs {
			n = 1
		}
		for k := 0; k < n; k++ {
			op := simrt.Choose(len(probe))
			scripts[t].ops = append(scripts[t].ops, op)
			scripts[t].args = append(scripts[t].args, 1+simrt.Choose(4))
			c := -1
			if simrt.Choose(4) == 0 {
				c = simrt.Choose(12)
			}
			scripts[t].cancel = append(scripts[t].cancel, c)
			desc = append(desc, fmt.Sprintf("t%d:%s", t, probe[op].name))
			if c >= 0 {
				desc[len(desc)-1] += fmt.Sprintf("[ctx ends +%d]", c)
			}
		}
	}
	if pairs {
		a, b := probe[scripts[0].ops[0]].name, probe[scripts[1].ops[0]].name
		if a > b {
			a, b = b, a
		}
		w.State("pair:" + tg.name + ":" + a + "+" + b)
	}
	w.Config("%s %s", tg.name, strings.Join(desc, " "))
	ctx := w.Ctx
	for t := range scripts {
		sc := scripts[t]
		ms := probe
		if t > 0 {
			ms = perTask()
		}
		simrt.Spawn(fmt.Sprintf("%s-client%d", tg.name, t), func() {
			for i, op := range sc.ops {
				cctx := ctx
				if k := sc.cancel[i]; k >= 0 {
					// the call's own context ends while the call is under way
					// (accepted by an event loop but not yet answered, parked,
					// about to park ...)
					c, cancel := context.WithCancel(ctx)
					cctx = c
					simrt.Spawn("call-context-ends", func() {
						for j := 0; j < k; j++ {
							simrt.Yield()
						}
						cancel()
					})
				}
				ms[op].fn(cctx, sc.args[i]+10*t)
			}
		})
	}
	simrt.Quiesce()
	w.stop()
	simrt.Quiesce()
}

func drain[T any](ctx context.Context, it *fun.Iterator[T], max int) {
	for i := 0; i < max; i++ {
		if _, err := it.ReadOne(ctx); err != nil {
			return
		}
	}
}

func init() {
	c13Targets = []target{
		{"Queue", func() func() []method {
			var q *pubsub.Queue[int]
			if simrt.Choose(2) == 0 {
				q = pubsub.NewUnlimitedQueue[int]()
			} else {
				hl := 1 + simrt.Choose(4)
				q, _ = pubsub.NewQueue[int](pubsub.QueueOptions{HardLimit: hl, SoftQuota: 1 + simrt.Choose(hl), BurstCredit: float64(simrt.Choose(4))})
			}
			d := q.Distributor()
			return func() []method {
				prod := q.Producer()
				it := q.Iterator()
				return []method{
					{"Add", func(ctx context.Context, a int) { _ = q.Add(a) }},
					{"Add", func(ctx context.Context, a int) { _ = q.Add(a) }},
					{"BlockingAdd", func(ctx context.Context, a int) { _ = q.BlockingAdd(ctx, a) }},
					{"Remove", func(ctx context.Context, a int) { q.Remove() }},
					{"Wait", func(ctx context.Context, a int) { _, _ = q.Wait(ctx) }},
					{"Len", func(ctx context.Context, a int) { q.Len() }},
					{"Close", func(ctx context.Context, a int) {
						if a == 1 {
							_ = q.Close()
						} else {
							q.Len()
						}
					}},
					{"Distributor.Send", func(ctx context.Context, a int) { _ = d.Send(ctx, a) }},
					{"Distributor.Receive", func(ctx context.Context, a int) { _, _ = d.Receive(ctx) }},
					{"Distributor.Len", func(ctx context.Context, a int) { d.Len() }},
					{"Producer.next", func(ctx context.Context, a int) { _, _ = prod(ctx) }},
					{"Iterator.next", func(ctx context.Context, a int) { _, _ = it.ReadOne(ctx) }},
				}
			}
		}},
		{"Deque", func() func() []method {
			var dq *pubsub.Deque[int]
			switch simrt.Choose(3) {
			case 0:
				dq = pubsub.NewUnlimitedDeque[int]()
			case 1:
				dq, _ = pubsub.NewDeque[int](pubsub.DequeOptions{Capacity: 1 + simrt.Choose(3)})
			default:
				hl := 2 + simrt.Choose(4)
				dq, _ = pubsub.NewDeque[int](pubsub.DequeOptions{QueueOptions: &pubsub.QueueOptions{HardLimit: hl, SoftQuota: 1 + simrt.Choose(hl), BurstCredit: float64(simrt.Choose(4))}})
			}
			d := dq.Distributor()
			dn := dq.DistributorNonBlocking()
			return func() []method {
				prods := []fun.Producer[int]{dq.Producer(), dq.ProducerReverse(), dq.ProducerBlocking(), dq.ProducerReverseBlocking()}
				its := []*fun.Iterator[int]{dq.Iterator(), dq.IteratorReverse()}
				return []method{
					{"PushFront", func(ctx context.Context, a int) { _ = dq.PushFront(a) }},
					{"PushBack", func(ctx context.Context, a int) { _ = dq.PushBack(a) }},
					{"ForcePushFront", func(ctx context.Context, a int) { _ = dq.ForcePushFront(a) }},
					{"ForcePushBack", func(ctx context.Context, a int) { _ = dq.ForcePushBack(a) }},
					{"PopFront", func(ctx context.Context, a int) { dq.PopFront() }},
					{"PopBack", func(ctx context.Context, a int) { dq.PopBack() }},
					{"WaitFront", func(ctx context.Context, a int) { _, _ = dq.WaitFront(ctx) }},
					{"WaitBack", func(ctx context.Context, a int) { _, _ = dq.WaitBack(ctx) }},
					{"WaitPushFront", func(ctx context.Context, a int) { _ = dq.WaitPushFront(ctx, a) }},
					{"WaitPushBack", func(ctx context.Context, a int) { _ = dq.WaitPushBack(ctx, a) }},
					{"Len", func(ctx context.Context, a int) { dq.Len() }},
					{"Close", func(ctx context.Context, a int) {
						if a == 1 {
							_ = dq.Close()
						} else {
							dq.Len()
						}
					}},
					{"Distributor.Send", func(ctx context.Context, a int) { _ = d.Send(ctx, a) }},
					{"Distributor.Receive", func(ctx context.Context, a int) { _, _ = d.Receive(ctx) }},
					{"Distributor.Len", func(ctx context.Context, a int) { d.Len() }},
					{"DistributorNonBlocking.Send", func(ctx context.Context, a int) { _ = dn.Send(ctx, a) }},
					{"Producer*.next", func(ctx context.Context, a int) { _, _ = prods[a%4](ctx) }},
					{"Iterator*.next", func(ctx context.Context, a int) { _, _ = its[a%2].ReadOne(ctx) }},
				}
			}
		}},
		{"Broker", func() func() []method {
			opts := pubsub.BrokerOptions{BufferSize: simrt.Choose(2), ParallelDispatch: simrt.Choose(2) == 1, WorkerPoolSize: 1 + simrt.Choose(2)}
			var b *pubsub.Broker[int]
			bctx := context.Background()
			switch simrt.Choose(4) {
			case 0:
				b = pubsub.NewBroker[int](bctx, opts)
			case 1:
				b = pubsub.NewQueueBroker[int](bctx, pubsub.NewUnlimitedQueue[int](), opts)
			case 2:
				b = pubsub.NewDequeBroker[int](bctx, pubsub.NewUnlimitedDeque[int](), opts)
			default:
				b = pubsub.NewLIFOBroker[int](bctx, opts, 2)
			}
			return func() []method {
				var mine []chan int
				return []method{
					{"Publish", func(ctx context.Context, a int) { b.Publish(ctx, a) }},
					{"Publish", func(ctx context.Context, a int) { b.Publish(ctx, a) }},
					{"Subscribe", func(ctx context.Context, a int) {
						if ch := b.Subscribe(ctx); ch != nil {
							mine = append(mine, ch)
						}
					}},
					{"receive", func(ctx context.Context, a int) {
						if len(mine) > 0 {
							t := simrt.Pre("harness:select")
							select {
							case <-mine[0]:
							case <-ctx.Done():
							}
							simrt.Post(t)
						}
					}},
					{"Unsubscribe", func(ctx context.Context, a int) {
						if len(mine) > 0 {
							b.Unsubscribe(ctx, mine[0])
							mine = mine[1:]
						}
					}},
					{"Stats", func(ctx context.Context, a int) { b.Stats(ctx) }},
					{"Stop", func(ctx context.Context, a int) {
						if a == 1 {
							b.Stop()
						} else {
							b.Stats(ctx)
						}
					}},
					{"Wait", func(ctx context.Context, a int) {
						wctx, cancel := context.WithCancel(ctx)
						simrt.Spawn("wait-cancel", func() { simrt.WaitStep(simrt.Stamp() + 30); cancel() })
						b.Wait(wctx)
						cancel()
					}},
				}
			}
		}},
		{"WaitGroup", func() func() []method {
			wg := &fun.WaitGroup{}
			return func() []method {
				return []method{
					{"Inc+Done", func(ctx context.Context, a int) { wg.Inc(); simrt.Yield(); wg.Done() }},
					{"Add+Done", func(ctx context.Context, a int) {
						wg.Add(a % 3)
						for i := 0; i < a%3; i++ {
							wg.Done()
						}
					}},
					{"Wait", func(ctx context.Context, a int) { wg.Wait(ctx) }},
					{"Num", func(ctx context.Context, a int) { wg.Num() }},
					{"IsDone", func(ctx context.Context, a int) { wg.IsDone() }},
					{"Launch", func(ctx context.Context, a int) { wg.Launch(ctx, func(context.Context) { simrt.Yield() }) }},
					{"DoTimes", func(ctx context.Context, a int) { wg.DoTimes(ctx, a%3, func(context.Context) {}) }},
					{"Worker", func(ctx context.Context, a int) { _ = wg.Worker()(ctx) }},
				}
			}
		}},
		{"Collector", func() func() []method {
			ec := &erc.Collector{}
			sentinel := errors.New("sentinel")
			return func() []method {
				return []method{
					{"Add", func(ctx context.Context, a int) { ec.Add(fmt.Errorf("e%d", a)) }},
					{"Add(sentinel)", func(ctx context.Context, a int) { ec.Add(sentinel) }},
					{"Add(joined)", func(ctx context.Context, a int) { ec.Add(ers.Join(fmt.Errorf("a%d", a), fmt.Errorf("b%d", a))) }},
					{"Add(nil)", func(ctx context.Context, a int) { ec.Add(nil) }},
					{"Len", func(ctx context.Context, a int) { ec.Len() }},
					{"HasErrors", func(ctx context.Context, a int) { ec.HasErrors(); ec.Ok() }},
					{"Resolve+use", func(ctx context.Context, a int) {
						if err := ec.Resolve(); err != nil {
							_ = err.Error()
							errors.Is(err, sentinel)
							ers.Unwind(err)
						}
					}},
					{"Iterator", func(ctx context.Context, a int) { drain(ctx, ec.Iterator(), 8) }},
					{"Future", func(ctx context.Context, a int) { _ = ec.Future()() }},
					{"Handler", func(ctx context.Context, a int) { ec.Handler()(fmt.Errorf("h%d", a)) }},
				}
			}
		}},
		{"adt.Map", func() func() []method {
			mp := &adt.Map[int, int]{}
			return func() []method {
				return []method{
					{"Store", func(ctx context.Context, a int) { mp.Store(a%4, a) }},
					{"Load", func(ctx context.Context, a int) { mp.Load(a % 4) }},
					{"Get", func(ctx context.Context, a int) { mp.Get(a % 4) }},
					{"Delete", func(ctx context.Context, a int) { mp.Delete(a % 4) }},
					{"Check", func(ctx context.Context, a int) { mp.Check(a % 4) }},
					{"EnsureStore", func(ctx context.Context, a int) { mp.EnsureStore(a%4, a) }},
					{"Set", func(ctx context.Context, a int) { mp.Set(dt.MakePair(a%4, a)) }},
					{"EnsureSet", func(ctx context.Context, a int) { mp.EnsureSet(dt.MakePair(a%4, a)) }},
					{"EnsureDefault", func(ctx context.Context, a int) { mp.EnsureDefault(a%4, func() int { return a }) }},
					{"Ensure", func(ctx context.Context, a int) { mp.Ensure(a % 4) }},
					{"Len", func(ctx context.Context, a int) { mp.Len() }},
					{"Range", func(ctx context.Context, a int) { mp.Range(func(int, int) bool { return true }) }},
					{"Iterator", func(ctx context.Context, a int) { it := mp.Iterator(); drain(ctx, it, 6); _ = it.Close() }},
					{"Keys", func(ctx context.Context, a int) { it := mp.Keys(); drain(ctx, it, 6); _ = it.Close() }},
					{"Values", func(ctx context.Context, a int) { it := mp.Values(); drain(ctx, it, 6); _ = it.Close() }},
					{"MarshalJSON", func(ctx context.Context, a int) { _, _ = mp.MarshalJSON() }},
					{"UnmarshalJSON", func(ctx context.Context, a int) { _ = mp.UnmarshalJSON([]byte(`{"1":1,"2":2}`)) }},
				}
			}
		}},
		{"adt.Atomic+Synchronized+Once", func() func() []method {
			at := adt.NewAtomic(1)
			sy := adt.NewSynchronized(1)
			on := adt.NewOnce(func() int { return 42 })
			mn := adt.Mnemonize(func() int { return 7 })
			return func() []method {
				return []method{
					{"Atomic.Set", func(ctx context.Context, a int) { at.Set(a) }},
					{"Atomic.Get", func(ctx context.Context, a int) { at.Get() }},
					{"Atomic.Swap", func(ctx context.Context, a int) { at.Swap(a) }},
					{"Atomic.Store+Load", func(ctx context.Context, a int) { at.Store(a); at.Load() }},
					{"Synchronized.Store+Load", func(ctx context.Context, a int) { sy.Store(a); sy.Load() }},
					{"Synchronized.Using", func(ctx context.Context, a int) { sy.Using(func() {}) }},
					{"Atomic.CompareAndSwap", func(ctx context.Context, a int) { adt.CompareAndSwap[int](at, a, a+1) }},
					{"Synchronized.Set", func(ctx context.Context, a int) { sy.Set(a) }},
					{"Synchronized.Get", func(ctx context.Context, a int) { sy.Get() }},
					{"Synchronized.With", func(ctx context.Context, a int) { sy.With(func(int) {}) }},
					{"Synchronized.Swap", func(ctx context.Context, a int) { sy.Swap(a) }},
					{"Synchronized.String", func(ctx context.Context, a int) { _ = sy.String() }},
					{"Once.Resolve", func(ctx context.Context, a int) { on.Resolve() }},
					{"Once.Do", func(ctx context.Context, a int) { on.Do(func() int { return a }) }},
					{"Once.Set", func(ctx context.Context, a int) { on.Set(func() int { return a }) }},
					{"Once.Called", func(ctx context.Context, a int) { on.Called(); on.Defined() }},
					{"Mnemonize", func(ctx context.Context, a int) { mn() }},
				}
			}
		}},
		{"adt.Pool", func() func() []method {
			p := &adt.Pool[*bytes.Buffer]{}
			p.SetConstructor(func() *bytes.Buffer { return &bytes.Buffer{} })
			p.SetCleanupHook(func(b *bytes.Buffer) *bytes.Buffer { b.Reset(); return b })
			return func() []method {
				return []method{
					{"Get+Put", func(ctx context.Context, a int) { b := p.Get(); b.WriteByte(byte(a)); p.Put(b) }},
					{"Make", func(ctx context.Context, a int) { b := p.Make(); b.WriteByte(byte(a)) }},
					{"Get", func(ctx context.Context, a int) { p.Get() }},
					{"FinalizeSetup", func(ctx context.Context, a int) { p.FinalizeSetup() }},
				}
			}
		}},
		{"dt.Set(sync)", func() func() []method {
			s := &dt.Set[int]{}
			if simrt.Choose(2) == 1 {
				s.Order()
			}
			s.Synchronize()
			other := &dt.Set[int]{}
			other.Synchronize()
			other.Add(1)
			other.Add(9)
			return func() []method {
				return []method{
					{"Add", func(ctx context.Context, a int) { s.Add(a % 5) }},
					{"AddCheck", func(ctx context.Context, a int) { s.AddCheck(a % 5) }},
					{"Delete", func(ctx context.Context, a int) { s.Delete(a % 5) }},
					{"DeleteCheck", func(ctx context.Context, a int) { s.DeleteCheck(a % 5) }},
					{"Check", func(ctx context.Context, a int) { s.Check(a % 5) }},
					{"Len", func(ctx context.Context, a int) { s.Len() }},
					{"Iterator", func(ctx context.Context, a int) { it := s.Iterator(); drain(ctx, it, 6); _ = it.Close() }},
					{"Producer", func(ctx context.Context, a int) {
						p := s.Producer()
						for i := 0; i < 6; i++ {
							if _, err := p(ctx); err != nil {
								break
							}
						}
					}},
					{"SortQuick", func(ctx context.Context, a int) { s.SortQuick(func(x, y int) bool { return x < y }) }},
					{"SortMerge", func(ctx context.Context, a int) { s.SortMerge(func(x, y int) bool { return x > y }) }},
					{"Populate", func(ctx context.Context, a int) { s.Populate(fun.SliceIterator([]int{a % 5, 3})) }},
					{"Equal", func(ctx context.Context, a int) { s.Equal(other) }},
					{"Extend", func(ctx context.Context, a int) { s.Extend(other) }},
					{"MarshalJSON", func(ctx context.Context, a int) { _, _ = s.MarshalJSON() }},
					{"UnmarshalJSON", func(ctx context.Context, a int) { _ = s.UnmarshalJSON([]byte(`[1,2,7]`)) }},
					// documented as safe to call more than once: the set keeps
					// the mutex it has
					{"Synchronize(again)", func(ctx context.Context, a int) { s.Synchronize() }},
					{"WithLock(refused)", func(ctx context.Context, a int) {
						defer func() { _ = recover() }()
						s.WithLock(&sync.Mutex{})
					}},
				}
			}
		}},
		{"wrappers", func() func() []method {
			// the callbacks touch unsynchronised counters: the wrapper's
			// exclusion / single-execution contract is what keeps them race free.
			var c1, c2, c3, c4, c5, c6, c7, c8, c9 int
			opLock := fun.Operation(func(context.Context) { c1++ }).Lock()
			mu := &adtMutex
			_ = mu
			wkLock := fun.Worker(func(context.Context) error { c2++; return nil }).Lock()
			prLock := fun.Producer[int](func(context.Context) (int, error) { c3++; return c3, nil }).Lock()
			pcLock := fun.Processor[int](func(_ context.Context, in int) error { c4 += in; return nil }).Lock()
			hdLock := fun.Handler[int](func(in int) { c5 += in }).Lock()
			ftLock := fun.Future[int](func() int { c6++; return c6 }).Lock()
			opOnce := fun.Operation(func(context.Context) { c7++ }).Once()
			wkOnce := fun.Worker(func(context.Context) error { c8++; return nil }).Once()
			prOnce := fun.Producer[int](func(context.Context) (int, error) { c9++; return c9, nil }).Once()
			var d1, d2, d3 int
			wkLimit := fun.Worker(func(context.Context) error { d1++; return nil }).Limit(2)
			prLimit := fun.Producer[int](func(context.Context) (int, error) { d2++; return d2, nil }).Limit(2)
			pcLimit := fun.Processor[int](func(_ context.Context, in int) error { d3 += in; return nil }).Limit(2)
			opLimit := fun.Operation(func(context.Context) {}).Limit(2)
			ftOnce := fun.Future[int](func() int { return 3 }).Once()
			ftLimit := fun.Future[int](func() int { return 3 }).Limit(2)
			hdOnce := fun.Handler[int](func(int) {}).Once()
			pcOnce := fun.Processor[int](func(context.Context, int) error { return nil }).Once()
			// WithLock forms share one mutex and one unsynchronised counter
			var wl int
			shared := &sync.Mutex{}
			opWL := fun.Operation(func(context.Context) { wl++ }).WithLock(shared)
			wkWL := fun.Worker(func(context.Context) error { wl++; return nil }).WithLock(shared)
			prWL := fun.Producer[int](func(context.Context) (int, error) { wl++; return wl, nil }).WithLock(shared)
			pcWL := fun.Processor[int](func(_ context.Context, in int) error { wl += in; return nil }).WithLock(shared)
			hdWL := fun.Handler[int](func(in int) { wl += in }).WithLock(shared)
			ftWL := fun.Future[int](func() int { wl++; return wl }).WithLock(shared)
			trWL := fun.Transform[int, int](func(_ context.Context, in int) (int, error) { wl += in; return wl, nil }).WithLock(shared)
			var tl int
			trLock := fun.Transform[int, int](func(_ context.Context, in int) (int, error) { tl += in; return tl, nil }).Lock()
			return func() []method {
				return []method{
					{"Operation.WithLock", func(ctx context.Context, a int) { opWL(ctx) }},
					{"Worker.WithLock", func(ctx context.Context, a int) { _ = wkWL(ctx) }},
					{"Producer.WithLock", func(ctx context.Context, a int) { _, _ = prWL(ctx) }},
					{"Processor.WithLock", func(ctx context.Context, a int) { _ = pcWL(ctx, a) }},
					{"Handler.WithLock", func(ctx context.Context, a int) { hdWL(a) }},
					{"Future.WithLock", func(ctx context.Context, a int) { ftWL() }},
					{"Transform.WithLock", func(ctx context.Context, a int) { _, _ = trWL(ctx, a) }},
					{"Transform.Lock", func(ctx context.Context, a int) { _, _ = trLock(ctx, a) }},
					{"Operation.Lock", func(ctx context.Context, a int) { opLock(ctx) }},
					{"Worker.Lock", func(ctx context.Context, a int) { _ = wkLock(ctx) }},
					{"Producer.Lock", func(ctx context.Context, a int) { _, _ = prLock(ctx) }},
					{"Processor.Lock", func(ctx context.Context, a int) { _ = pcLock(ctx, a) }},
					{"Handler.Lock", func(ctx context.Context, a int) { hdLock(a) }},
					{"Future.Lock", func(ctx context.Context, a int) { ftLock() }},
					{"Operation.Once", func(ctx context.Context, a int) { opOnce(ctx) }},
					{"Worker.Once", func(ctx context.Context, a int) { _ = wkOnce(ctx) }},
					{"Producer.Once", func(ctx context.Context, a int) { _, _ = prOnce(ctx) }},
					{"Worker.Limit", func(ctx context.Context, a int) { _ = wkLimit(ctx) }},
					{"Producer.Limit", func(ctx context.Context, a int) { _, _ = prLimit(ctx) }},
					{"Processor.Limit", func(ctx context.Context, a int) { _ = pcLimit(ctx, a) }},
					{"Operation.Limit", func(ctx context.Context, a int) { opLimit(ctx) }},
					{"Future.Once", func(ctx context.Context, a int) { ftOnce() }},
					{"Future.Limit", func(ctx context.Context, a int) { ftLimit() }},
					{"Handler.Once", func(ctx context.Context, a int) { hdOnce(a) }},
					{"Processor.Once", func(ctx context.Context, a int) { _ = pcOnce(ctx, a) }},
				}
			}
		}},
	}
	for _, tg := range c13Targets {
		tg := tg
		Register(&Workload{Prop: "C13", Name: "race-" + tg.name, MaxSteps: 3000, CheckGID: true, Run: func(w *W) { c13Driver(w, tg, false) }})
		Register(&Workload{Prop: "C13", Name: "pairs-" + tg.name, MaxSteps: 3000, CheckGID: true, Run: func(w *W) { c13Driver(w, tg, true) }})
	}
}

var adtMutex struct{}

// ---- race log handling (worker side) ----

var raceLogPath = func() string {
	p := os.Getenv("VERIF_RACELOG")
	if p == "" {
		return ""
	}
	return fmt.Sprintf("%s.%d", p, os.Getpid())
}()
var raceLogOff int64

var reAccess = regexp.MustCompile(`(?m)^(Read|Write|Previous read|Previous write|Previous atomic read|Previous atomic write|Atomic read|Atomic write) at 0x[0-9a-f]+ by (main goroutine|goroutine \d+):$`)

// collectRaces reads race reports written since the last call and turns them
// into violations.
func collectRaces(w *W) {
	if raceLogPath == "" {
		return
	}
	f, err := os.Open(raceLogPath)
	if err != nil {
		return
	}
	defer f.Close()
	if _, err := f.Seek(raceLogOff, io.SeekStart); err != nil {
		return
	}
	b, _ := io.ReadAll(f)
	raceLogOff += int64(len(b))
	text := string(b)
	for _, rep := range strings.Split(text, "WARNING: DATA RACE")[1:] {
		if i := strings.Index(rep, "=================="); i >= 0 {
			rep = rep[:i]
		}
		// split into blocks at blank lines
		var frames []string
		for _, blk := range strings.Split(rep, "\n\n") {
			blk = strings.TrimSpace(blk)
			first := strings.SplitN(blk, "\n", 2)[0]
			if !reAccess.MatchString(first) {
				continue
			}
			fn := "?"
			inFun := false
			for _, l := range strings.Split(blk, "\n")[1:] {
				l = strings.TrimSpace(l)
				if strings.HasPrefix(l, "github.com/tychoish/fun") {
					fn = strings.TrimPrefix(l, "github.com/tychoish/fun")
					fn = strings.TrimPrefix(strings.TrimPrefix(fn, "/"), ".")
					if j := strings.LastIndex(fn, "("); j > 0 {
						fn = fn[:j]
					}
					fn = strings.ReplaceAll(fn, "[...]", "")
					inFun = true
					break
				}
			}
			if !inFun {
				// the library function itself may have been inlined into the
				// harness; the instrumented operation it performed still names
				// it: simrt's map-order / lock / channel wrappers are called
				// from instrumented library code only (the type arguments show
				// whose map it is)
				for _, l := range strings.Split(blk, "\n")[1:] {
					l = strings.TrimSpace(l)
					if strings.HasPrefix(l, "verif/simrt.MapOrder[") && strings.Contains(l, "github.com/tychoish/fun") {
						fn = "(inlined) range over a library map"
						inFun = true
						break
					}
				}
			}
			if inFun {
				frames = append(frames, fn)
			} else {
				frames = append(frames, "?")
			}
		}
		if len(frames) < 2 {
			w.Out.HarnessErr = "unparseable race report:\n" + rep
			continue
		}
		frames = frames[:2]
		if frames[0] == "?" || frames[1] == "?" {
			w.Out.HarnessErr = "race report without a tychoish/fun frame on both sides (harness bug?):\n" + rep
			continue
		}
		sort.Strings(frames)
		w.Violate("data-race", "race:"+frames[0]+"|"+frames[1], "data race between %s and %s\n%s", frames[0], frames[1], strings.TrimSpace(rep))
	}
}

var _ = json.Marshal
