package harness

import (
	"context"
	"fmt"
	"sort"
	"strings"
	"time"

	"github.com/tychoish/fun/pubsub"
	"verif/simrt"
)

// C08 / C09 — broker delivery, progress and shutdown.

type pubRec struct {
	val         int
	invoke, ret int64
	done        bool
	ctx         context.Context
	cancel      context.CancelFunc
	canceled    bool
}

type delivery struct {
	val  int
	tick int64
}

type subRec struct {
	id          int
	subRet      int64
	unsubInvoke int64
	unsubRet    int64
	subscribed  bool
	unsubPlan   bool
	unsubTwice  bool
	subCancel   int  // >= 0: the Subscribe call's own context ends that many scheduling points into it
	stopRecv    bool // stop receiving as soon as Unsubscribe returned (C09 family)
	slow        int  // milliseconds (fake clock) this subscriber takes per message
	got         []delivery
	ctlDone     bool
	ctx         context.Context
	cancel      context.CancelFunc
	canceled    bool
}

type brokerSetup struct {
	b          *pubsub.Broker[int]
	kind       string
	lossless   bool
	workers    int
	optWorkers int
	parallel   bool
	buf        int
	capacity   int
	cancel     context.CancelFunc
	ctx        context.Context
}

var brokerKinds = []string{"channel", "queue-unlimited", "deque-unlimited", "queue-bounded", "deque-bounded", "lifo"}

// brokerDeadline, when > 0, gives the next broker a parent context that
// expires on the fake clock (C09's deadline family).
var brokerDeadline time.Duration

func makeBroker(w *W) *brokerSetup {
	bs := &brokerSetup{}
	kind := simrt.Choose(len(brokerKinds))
	bs.kind = brokerKinds[kind]
	bs.parallel = simrt.Choose(2) == 1
	// the options as given: a non-positive pool size means one worker, a
	// negative buffer size none (bs.workers / bs.buf are the effective values)
	optWorkers := []int{1, 2, 3, 0, -2}[simrt.Choose(5)]
	bs.workers = max(optWorkers, 1)
	bs.optWorkers = optWorkers
	optBuf := []int{0, 1, 2, -1}[simrt.Choose(4)]
	if simrt.Choose(2) == 0 {
		optBuf = 0
	}
	bs.buf = max(optBuf, 0)
	capacity := 1 + simrt.Choose(3) // bounded back-ends: 1..3 (capacity 1 is its own corner: evict == insertion point)
	bs.capacity = capacity
	opts := pubsub.BrokerOptions{BufferSize: optBuf, ParallelDispatch: bs.parallel, WorkerPoolSize: optWorkers}
	bctx, cancel := context.WithCancel(w.Ctx)
	if brokerDeadline > 0 {
		bctx, cancel = context.WithTimeout(w.Ctx, brokerDeadline)
		brokerDeadline = 0
	}
	bs.cancel = cancel
	bs.ctx = bctx
	switch kind {
	case 0:
		bs.b = pubsub.NewBroker[int](bctx, opts)
	case 1:
		bs.b = pubsub.NewQueueBroker[int](bctx, pubsub.NewUnlimitedQueue[int](), opts)
	case 2:
		bs.b = pubsub.NewDequeBroker[int](bctx, pubsub.NewUnlimitedDeque[int](), opts)
	case 3:
		q, _ := pubsub.NewQueue[int](pubsub.QueueOptions{HardLimit: capacity, SoftQuota: 1 + simrt.Choose(capacity)})
		bs.b = pubsub.NewQueueBroker[int](bctx, q, opts)
	case 4:
		dq, _ := pubsub.NewDeque[int](pubsub.DequeOptions{Capacity: capacity})
		bs.b = pubsub.NewDequeBroker[int](bctx, dq, opts)
	case 5:
		bs.b = pubsub.NewLIFOBroker[int](bctx, opts, capacity)
	}
	bs.lossless = kind <= 2 && bs.buf == 0
	return bs
}

func (bs *brokerSetup) String() string {
	return fmt.Sprintf("%s parallel=%v workers=%d(option %d) buf=%d cap=%d lossless=%v", bs.kind, bs.parallel, bs.workers, bs.optWorkers, bs.buf, bs.capacity, bs.lossless)
}

// brokerWorkload starts publishers and subscribers; faults selects the C09 fault families.
func brokerWorkload(w *W, h *Hist, bs *brokerSetup, faults bool) ([]*pubRec, []*subRec) {
	nPubs := 1 + simrt.Choose(3)
	nSubs := 1 + simrt.Choose(3)
	burst := simrt.Choose(2) == 1 // publishers do not yield between messages
	var pubs []*pubRec
	var subs []*subRec
	nextSubID := nSubs
	var runSub func(sr *subRec, delay, unsubAt int, again bool)
	runSub = func(sr *subRec, delay, unsubAt int, again bool) {
		for i := 0; i < delay; i++ {
			simrt.Yield()
		}
		sctx := sr.ctx
		if k := sr.subCancel; k >= 0 {
			// the context of the Subscribe call itself ends while the request
			// is in flight: the call either fails (nil) or hands out a channel
			// that works like any other - never a subscription nobody holds
			c, cancel := context.WithCancel(sr.ctx)
			sctx = c
			simrt.Spawn(fmt.Sprintf("sub%d-subscribe-context-ends", sr.id), func() {
				for j := 0; j < k; j++ {
					simrt.Yield()
				}
				cancel()
			})
			w.Fault("subscribe-context-ends-in-flight")
		}
		ch := bs.b.Subscribe(sctx)
		if ch == nil {
			sr.ctlDone = true
			return
		}
		sr.subRet = h.Tick()
		sr.subscribed = true
		stop := false
		slow := sr.slow
		simrt.Spawn(fmt.Sprintf("sub%d-recv", sr.id), func() {
			for !stop {
				v, ok := hrecv(ch)
				if !ok {
					return
				}
				sr.got = append(sr.got, delivery{v, h.Tick()})
				if slow > 0 {
					// a subscriber that keeps receiving, but takes its time
					// (fake clock): everything upstream backs up meanwhile
					simrt.Sleep("harness:slow-subscriber", time.Duration(slow)*time.Millisecond)
				}
			}
		})
		if sr.unsubPlan {
			simrt.WaitStep(unsubAt)
			sr.unsubInvoke = h.Tick()
			bs.b.Unsubscribe(sr.ctx, ch)
			sr.unsubRet = h.Tick()
			if sr.stopRecv {
				stop = true
			}
			if sr.unsubTwice {
				// an explicit Unsubscribe plus a deferred one: the second is for
				// a channel that is no longer subscribed and concerns nobody
				bs.b.Unsubscribe(sr.ctx, ch)
			}
			if again {
				// the same client subscribes again: a new channel with a window
				// of its own (nothing from before may be replayed into it twice)
				nsr := &subRec{id: nextSubID, subCancel: -1}
				nextSubID++
				nsr.ctx, nsr.cancel = sr.ctx, sr.cancel
				subs = append(subs, nsr)
				sr.ctlDone = true
				runSub(nsr, 0, 0, false)
				return
			}
		}
		sr.ctlDone = true
	}
	for s := 0; s < nSubs; s++ {
		sr := &subRec{id: s, unsubPlan: simrt.Choose(3) == 0, stopRecv: faults && simrt.Choose(3) == 0}
		if simrt.Choose(4) == 0 {
			sr.slow = 1 + simrt.Choose(12)
		}
		sr.ctx, sr.cancel = context.WithCancel(w.Ctx)
		delay := simrt.Choose(3)
		unsubAt := simrt.Choose(150)
		again := sr.unsubPlan && simrt.Choose(2) == 0
		sr.unsubTwice = sr.unsubPlan && simrt.Choose(3) == 0
		sr.subCancel = -1
		if simrt.Choose(4) == 0 {
			sr.subCancel = simrt.Choose(8)
		}
		subs = append(subs, sr)
		simrt.Spawn(fmt.Sprintf("sub%d-control", s), func() { runSub(sr, delay, unsubAt, again) })
	}
	for p := 0; p < nPubs; p++ {
		k := 1 + simrt.Choose(4)
		var recs []*pubRec
		for i := 0; i < k; i++ {
			r := &pubRec{val: (p+1)*1000 + i}
			r.ctx, r.cancel = context.WithCancel(w.Ctx)
			recs = append(recs, r)
			pubs = append(pubs, r)
		}
		delay := simrt.Choose(4)
		simrt.Spawn(fmt.Sprintf("pub%d", p), func() {
			for i := 0; i < delay; i++ {
				simrt.Yield()
			}
			for _, r := range recs {
				r.invoke = h.Tick()
				bs.b.Publish(r.ctx, r.val)
				r.ret = h.Tick()
				r.done = true
				if !burst {
					simrt.Yield()
				}
			}
		})
	}
	w.Config("%s pubs=%d subs=%d msgs=%d burst=%v", bs, nPubs, nSubs, len(pubs), burst)
	w.State(fmt.Sprintf("%s par=%v w=%d buf=%d", bs.kind, bs.parallel, bs.workers, bs.buf))
	return pubs, subs
}

// c08Judge evaluates the delivery clauses. complete says whether the broker
// is still live and every subscriber kept receiving (so missing deliveries count).
func c08Judge(w *W, bs *brokerSetup, pubs []*pubRec, subs []*subRec, complete bool, unsubWindow bool) {
	published := map[int]*pubRec{}
	for _, p := range pubs {
		if p.invoke > 0 {
			published[p.val] = p
		}
	}
	sig := func(k string) string { return k + ":" + bs.kind }
	for _, s := range subs {
		seen := map[int]int{}
		for _, d := range s.got {
			if published[d.val] == nil {
				w.Violate("invented-message", sig("invented-message"), "subscriber %d received %d which was never published", s.id, d.val)
			}
			seen[d.val]++
			if seen[d.val] == 2 {
				w.Violate("duplicate-delivery", sig("duplicate-delivery"), "subscriber %d received %d twice (%s)", s.id, d.val, bs)
			}
		}
		if !bs.lossless || !complete || !s.subscribed || s.stopRecv || s.canceled {
			continue
		}
		if s.unsubInvoke != 0 && !unsubWindow {
			continue // the Unsubscribe window is C08's clause
		}
		for _, p := range pubs {
			if !p.done || p.canceled {
				continue
			}
			if p.invoke > s.subRet && (s.unsubInvoke == 0 || p.ret < s.unsubInvoke) && seen[p.val] != 1 {
				detail := "never-unsubscribed"
				if s.unsubInvoke != 0 {
					detail = "published-before-unsubscribe"
				}
				w.Violate("message-lost", sig("message-lost")+":"+detail, "subscriber %d (subscribed@%d, unsubscribe called@%d) did not receive %d, published in [%d,%d] (%s)", s.id, s.subRet, s.unsubInvoke, p.val, p.invoke, p.ret, bs)
				break
			}
		}
	}
	if bs.lossless && bs.workers <= 1 {
		// per-publisher order within each subscriber, and a common relative order
		for _, s := range subs {
			last := map[int]int{}
			for _, d := range s.got {
				pid := d.val / 1000
				if prev, ok := last[pid]; ok && d.val < prev {
					w.Violate("publisher-order", sig("publisher-order"), "subscriber %d received %d after %d from the same publisher (%s)", s.id, d.val, prev, bs)
				}
				last[pid] = d.val
			}
		}
		for i := 0; i < len(subs); i++ {
			for j := i + 1; j < len(subs); j++ {
				pos := map[int]int{}
				for k, d := range subs[j].got {
					pos[d.val] = k
				}
				lastPos := -1
				for _, d := range subs[i].got {
					if k, ok := pos[d.val]; ok {
						if k < lastPos {
							w.Violate("subscriber-order", sig("subscriber-order"), "subscribers %d and %d saw common messages in different orders: %v vs %v (%s)", subs[i].id, subs[j].id, vals(subs[i].got), vals(subs[j].got), bs)
							break
						}
						lastPos = k
					}
				}
			}
		}
	}
}

func vals(ds []delivery) []int {
	out := make([]int, len(ds))
	for i, d := range ds {
		out[i] = d.val
	}
	return out
}

func brokerHistory(w *W, pubs []*pubRec, subs []*subRec) {
	for _, p := range pubs {
		w.hist = append(w.hist, fmt.Sprintf("publish %d [%d,%d] done=%v", p.val, p.invoke, p.ret, p.done))
	}
	for _, s := range subs {
		w.hist = append(w.hist, fmt.Sprintf("sub%d subscribed@%d unsub[%d,%d] got=%v", s.id, s.subRet, s.unsubInvoke, s.unsubRet, vals(s.got)))
	}
}

func c08Run(w *W) {
	h := &Hist{}
	bs := makeBroker(w)
	pubs, subs := brokerWorkload(w, h, bs, false)
	w.After = func(res *simrt.Result) {
		if res.Budget {
			// never reached quiescence (e.g. the Deque waiters' livelock):
			// only the safety clauses can be judged
			c08Judge(w, bs, pubs, subs, false, false)
		}
	}
	simrt.Quiesce()
	brokerHistory(w, pubs, subs)
	complete := true
	for _, p := range pubs {
		if !p.done {
			complete = false // a stalled Publish is C09's subject
		}
	}
	for _, s := range subs {
		if !s.ctlDone {
			complete = false
		}
	}
	if !complete {
		w.Inconclusive("broker-stalled")
	}
	c08Judge(w, bs, pubs, subs, complete, true)
	bs.cancel()
}

// ---- C09 ----

func c09Run(w *W) {
	h := &Hist{}
	// deadline family: the broker's parent context expires on the fake clock,
	// which the scheduler may advance in the middle of the workload
	deadline := w.wl.ClockJump > 0
	if deadline {
		brokerDeadline = time.Duration(1+simrt.Choose(40)) * time.Millisecond
		w.Fault("parent-deadline")
	}
	bs := makeBroker(w)
	faulty := w.faulty()
	pubs, subs := brokerWorkload(w, h, bs, faulty)
	stopMode := 0 // 0 none (quiesce first), 1 Stop, 2 parent cancel
	stopAt := 0
	waitEarly := false
	statsCancel := false
	nCallerCancel := 0
	if faulty {
		stopMode = simrt.Choose(3)
		if deadline {
			stopMode = 0 // the deadline is the stop
		}
		stopAt = simrt.Choose(200)
		waitEarly = simrt.Choose(3) == 0
		statsCancel = simrt.Choose(2) == 0
		nCallerCancel = simrt.Choose(3)
	}
	w.Out.Config += fmt.Sprintf(" stop=%d@%d waitEarly=%v statsCancel=%v callerCancels=%d", stopMode, stopAt, waitEarly, statsCancel, nCallerCancel)
	waitDone := false
	waitStarted := false
	startWait := func() {
		waitStarted = true
		simrt.Spawn("waiter", func() {
			bs.b.Wait(w.Ctx)
			waitDone = true
		})
	}
	if waitEarly {
		startWait()
		w.Fault("wait-before-stop")
	}
	stopped := false
	stopReturned := false
	stopStep := 0
	doubleStop := faulty && simrt.Choose(3) == 0
	w.After = func(res *simrt.Result) {
		// bounded liveness once the faults have stopped: the shutdown was
		// issued (or the deadline passed) thousands of steps ago, every harness
		// task has a bounded script, and the run still has not come to rest
		if res.Budget && stopStep > 0 && res.Steps-stopStep > 3000 {
			w.Probe("budget-exhausted-long-after-shutdown")
			live := simrt.LiveLibTasks()
			sort.Strings(live)
			first := "-"
			if len(live) > 0 {
				first = live[0]
			}
			w.Violate("no-quiescence-after-shutdown", "no-quiescence-after-shutdown:"+bs.kind, "the broker was shut down at step %d; %d steps later the system still has not come to rest (live broker goroutines: %v, first %s) (%s)", stopStep, res.Steps-stopStep, len(live), first, bs)
		}
	}
	doStop := func() {
		stopped = true
		stopStep = simrt.Stamp()
		if stopMode == 2 {
			bs.cancel()
			w.Fault("parent-cancel")
		} else {
			bs.b.Stop()
			w.Fault("stop")
			if doubleStop {
				bs.b.Stop() // Stop is idempotent
				w.Fault("stop-twice")
			}
		}
		stopReturned = true
	}
	if stopMode != 0 {
		simrt.Spawn("fault:stop", func() {
			simrt.WaitStep(stopAt)
			doStop()
		})
	}
	// Stats callers, one of which may get its context cancelled mid-call
	type statsRec struct {
		done     bool
		ctx      context.Context
		cancel   context.CancelFunc
		canceled bool
	}
	var stats []*statsRec
	nStats := simrt.Choose(3)
	for i := 0; i < nStats; i++ {
		sr := &statsRec{}
		sr.ctx, sr.cancel = context.WithCancel(w.Ctx)
		stats = append(stats, sr)
		at := simrt.Choose(100)
		simrt.Spawn("stats", func() {
			simrt.WaitStep(at)
			bs.b.Stats(sr.ctx)
			sr.done = true
		})
		if statsCancel && i == 0 {
			cat := at + simrt.Choose(12)
			simrt.Spawn("fault:cancel-stats", func() {
				simrt.WaitStep(cat)
				sr.canceled = true
				sr.cancel()
			})
			w.Fault("cancel-stats")
		}
	}
	for i := 0; i < nCallerCancel; i++ {
		at := simrt.Choose(150)
		if simrt.Choose(2) == 0 && len(pubs) > 0 {
			p := pubs[simrt.Choose(len(pubs))]
			simrt.Spawn("fault:cancel-publish", func() {
				simrt.WaitStep(at)
				p.canceled = true
				p.cancel()
			})
			w.Fault("cancel-publish")
		} else {
			s := subs[simrt.Choose(len(subs))]
			simrt.Spawn("fault:cancel-subscriber", func() {
				simrt.WaitStep(at)
				s.canceled = true
				s.cancel()
			})
			w.Fault("cancel-subscriber")
		}
	}
	if deadline {
		// note when the deadline passes (a harness task, gated like the others)
		simrt.Spawn("deadline-watch", func() {
			hrecv(bs.ctx.Done())
			stopped, stopReturned = true, true
			stopStep = simrt.Stamp()
		})
	}
	simrt.Quiesce()
	brokerHistory(w, pubs, subs)
	sig := func(k string) string { return k + ":" + bs.kind }
	anyStopRecv := false
	for _, s := range subs {
		if s.stopRecv && s.unsubPlan {
			anyStopRecv = true
		}
	}
	if !stopped {
		// the broker is live: progress clauses
		if !anyStopRecv {
			for _, p := range pubs {
				if !p.done && !p.canceled {
					w.Violate("publish-stalled", sig("publish-stalled"), "Publish(%d) has not returned although the broker is live and every subscriber keeps receiving (%s)", p.val, bs)
					break
				}
			}
			for _, s := range subs {
				if !s.ctlDone && !s.canceled {
					w.Violate("subscribe-stalled", sig("subscribe-stalled"), "subscriber %d is stuck in Subscribe/Unsubscribe although the broker is live (%s)", s.id, bs)
					break
				}
			}
			for _, st := range stats {
				if !st.done && !st.canceled {
					w.Violate("stats-stalled", sig("stats-stalled"), "Stats has not returned although the broker is live (%s)", bs)
					break
				}
			}
			if len(w.Out.Violations) == 0 {
				// "every message accepted by the distributor is eventually dispatched":
				// with every dispatch worker idle and every subscriber receiving, the
				// distributor must be empty.
				if st := bs.b.Stats(w.Ctx); st.BufferDepth != 0 {
					w.Violate("backlog-not-dispatched", sig("backlog-not-dispatched"), "at quiescence the broker is live, every subscriber is receiving, no dispatch is in progress, and the distributor still holds %d message(s) (%s)", st.BufferDepth, bs)
				}
			}
			if len(w.Out.Violations) == 0 {
				c08Judge(w, bs, pubs, subs, true, false)
			}
		}
		if len(w.Out.Violations) > 0 {
			return
		}
		// now stop it
		if stopMode == 0 {
			stopMode = 1 + simrt.Choose(2)
		}
		if !waitStarted && simrt.Choose(2) == 0 {
			startWait()
		}
		simrt.Spawn("stop-at-quiescence", doStop)
		simrt.Quiesce()
	}
	if !stopReturned {
		w.Violate("stop-blocked", sig("stop-blocked"), "Stop has not returned at quiescence (Wait in progress: %v, returned: %v) (%s)", waitStarted, waitDone, bs)
		return
	}
	if !waitStarted {
		startWait()
		simrt.Quiesce()
	}
	if !waitDone {
		w.Violate("wait-blocked", sig("wait-blocked"), "Wait has not returned after Stop/cancel (%s)", bs)
	}
	// every caller returns once its own context is cancelled
	for _, p := range pubs {
		p.canceled = true
		p.cancel()
	}
	for _, s := range subs {
		s.canceled = true
		s.cancel()
	}
	for _, st := range stats {
		st.canceled = true
		st.cancel()
	}
	simrt.Quiesce()
	for _, p := range pubs {
		if p.invoke > 0 && !p.done {
			w.Violate("caller-stuck", sig("caller-stuck")+":Publish", "Publish(%d) still blocked after its context was cancelled (%s)", p.val, bs)
			break
		}
	}
	for _, s := range subs {
		if !s.ctlDone {
			w.Violate("caller-stuck", sig("caller-stuck")+":Subscribe/Unsubscribe", "subscriber %d still blocked in Subscribe/Unsubscribe after its context was cancelled (%s)", s.id, bs)
			break
		}
	}
	for _, st := range stats {
		if !st.done {
			w.Violate("caller-stuck", sig("caller-stuck")+":Stats", "Stats still blocked after its context was cancelled (%s)", bs)
			break
		}
	}
	if live := simrt.LiveLibTasks(); len(live) > 0 {
		sort.Strings(live)
		w.Violate("goroutine-leak", sig("goroutine-leak")+":"+live[0], "%d broker goroutine(s) still alive after shutdown: %s (%s)", len(live), strings.Join(live, ", "), bs)
	}
	c08Judge(w, bs, pubs, subs, false, false)
}

func init() {
	Register(&Workload{Prop: "C08", Name: "delivery", MaxSteps: 6000, Run: c08Run})
	// cells: back-end kind x ParallelDispatch x WorkerPoolSize (the first draws of makeBroker)
	Register(&Workload{Prop: "C09", Name: "progress", MaxSteps: 6000, Cells: []int{6, 2, 5}, Run: c09Run})
	Register(&Workload{Prop: "C09", Name: "shutdown-faults", Faulty: true, MaxSteps: 6000, Cells: []int{6, 2, 5}, Run: c09Run})
	Register(&Workload{Prop: "C09", Name: "shutdown-deadline", Faulty: true, MaxSteps: 6000, ClockJump: 40, Run: c09Run})
}
