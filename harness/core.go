package harness

import (
	"context"
	"encoding/json"
	"fmt"
	"os"
	"runtime"
	"sort"
	"strings"
	"sync/atomic"
	"testing"
	"testing/synctest"
	"time"

	"verif/simrt"
)

// Violation is one oracle failure. Sig is the line-number-free signature used
// to match known findings; it never contains seeds or values.
type Violation struct {
	Kind string `json:"kind"`
	Sig  string `json:"sig"`
	Msg  string `json:"msg"`
}

// Outcome is everything one run produced.
type Outcome struct {
	Prop         string            `json:"property"`
	Workload     string            `json:"workload"`
	Seed         uint64            `json:"seed"`
	Tape         []int32           `json:"tape"`
	Violations   []Violation       `json:"violations,omitempty"`
	Inconclusive string            `json:"inconclusive,omitempty"`
	Steps        int               `json:"steps"`
	Switches     int               `json:"switches"`
	Digest       string            `json:"digest"`
	Quiescent    bool              `json:"quiescent"`
	Faults       map[string]int    `json:"faults,omitempty"`
	Probes       map[string]int    `json:"probes,omitempty"`
	States       []string          `json:"states,omitempty"`
	Config       string            `json:"config,omitempty"`
	History      []string          `json:"history,omitempty"`
	Trace        []simrt.TraceStep `json:"trace,omitempty"`
	Tasks        []simrt.TaskInfo  `json:"tasks,omitempty"`
	Strategy     string            `json:"strategy,omitempty"`
	HarnessErr   string            `json:"harness_error,omitempty"`
	SimTimeNs    int64             `json:"sim_time_ns"`
	ClockJumps   int               `json:"clock_jumps,omitempty"`
	GoVersion    string            `json:"go_version,omitempty"`
	NumCPU       int               `json:"num_cpu,omitempty"`
	FromSeed     bool              `json:"from_seed,omitempty"` // replay by re-running the seed (hang reports carry no tape)
}

// NonTrivial is the evidence rule: tasks really interleaved, or a fault fired.
func (o *Outcome) NonTrivial() bool {
	n := 0
	for _, v := range o.Faults {
		n += v
	}
	return o.Switches >= 4 || n > 0
}

// W is the per-run context handed to a workload. Only the root task and the
// post-run judge may use the recording methods unless stated otherwise (in
// race builds harness tasks must not share harness memory).
type W struct {
	Out   *Outcome
	Res   *simrt.Result
	Ctx   context.Context // live for the whole run, created inside the bubble
	stop  context.CancelFunc
	After func(res *simrt.Result) // post-run judgement (controller, after the run)
	hist  []string
	seen  map[string]bool
	wl    *Workload
	held  []int
}

func (w *W) Violate(kind, sig, format string, a ...any) {
	w.Out.Violations = append(w.Out.Violations, Violation{Kind: kind, Sig: sig, Msg: fmt.Sprintf(format, a...)})
}
func (w *W) Fault(kind string) { w.Out.Faults[kind]++ }
func (w *W) Probe(name string) { w.Out.Probes[name]++ }
func (w *W) State(key string) {
	if !w.seen[key] {
		w.seen[key] = true
		w.Out.States = append(w.Out.States, key)
	}
}
func (w *W) Config(format string, a ...any) { w.Out.Config = fmt.Sprintf(format, a...) }
func (w *W) Log(format string, a ...any) {
	w.hist = append(w.hist, fmt.Sprintf("@%d ", simrt.Stamp())+fmt.Sprintf(format, a...))
}
func (w *W) Inconclusive(why string) {
	if w.Out.Inconclusive == "" {
		w.Out.Inconclusive = why
	}
}

// Workload is one workload family of one property.
type Workload struct {
	Prop      string
	Name      string
	Run       func(w *W) // executes as the root task
	MaxSteps  int
	ClockJump int
	Faulty    bool  // fault-injecting family (reported separately in evidence)
	Cells     []int // radices of the leading Choose calls of Run: the configuration cells the thorough tier enumerates
	CheckGID  bool  // verify goroutine identity at every simrt entry (workloads whose library code sets finalizers)
}

var registry []*Workload

func Register(w *Workload) { registry = append(registry, w) }

func WorkloadsFor(prop string, only string) []*Workload {
	var out []*Workload
	for _, w := range registry {
		if w.Prop != prop {
			continue
		}
		if only != "" && !matchList(only, w.Name) {
			continue
		}
		out = append(out, w)
	}
	sort.SliceStable(out, func(i, j int) bool { return out[i].Name < out[j].Name })
	return out
}

func matchList(list, name string) bool {
	for _, s := range strings.Split(list, ",") {
		if s == name {
			return true
		}
	}
	return false
}

var strategyNames = []string{"uniform", "sticky0.5", "sticky0.8", "sticky0.95", "pct1", "pct2", "pct3", "uniform"}

func strategyOf(i int) simrt.Strategy {
	switch i {
	case 1:
		return simrt.Strategy{Kind: 1, Sticky: 0.5}
	case 2:
		return simrt.Strategy{Kind: 1, Sticky: 0.8}
	case 3:
		return simrt.Strategy{Kind: 1, Sticky: 0.95}
	case 4:
		return simrt.Strategy{Kind: 2, Depth: 1, Horiz: 150}
	case 5:
		return simrt.Strategy{Kind: 2, Depth: 2, Horiz: 150}
	case 6:
		return simrt.Strategy{Kind: 2, Depth: 3, Horiz: 300}
	}
	return simrt.Strategy{}
}

// A run that spins inside gate-free library code cannot be preempted by the
// simulator. The watchdog (real time, outside every bubble) turns it into a
// reportable event: it writes a marker next to the worker's output file and
// exits 3; the driver reports a "hang" violation with the run's seed.
var (
	curStart atomic.Int64 // unix nanos of the current run's start, 0 when idle
	curInfo  atomic.Pointer[[3]string]
)

func init() {
	limit := time.Duration(envIntCore("VERIF_HANG_SEC", 40)) * time.Second
	go func() {
		var ms runtime.MemStats
		for {
			time.Sleep(250 * time.Millisecond)
			st := curStart.Load()
			if st == 0 {
				continue
			}
			reason := ""
			if time.Since(time.Unix(0, st)) > limit {
				reason = fmt.Sprintf("the run did not finish within %v of real time", limit)
			} else {
				runtime.ReadMemStats(&ms)
				if ms.HeapAlloc > 3<<30 {
					reason = fmt.Sprintf("the run allocated %d MiB", ms.HeapAlloc>>20)
				}
			}
			if reason == "" {
				continue
			}
			// A genuine spin keeps one goroutine executing library code. Take two
			// stack dumps five seconds apart: only a goroutine that is
			// running/runnable inside tychoish/fun in BOTH counts as a hang; a run
			// that is merely slow (overloaded machine) or stuck elsewhere is
			// reported as a stall (inconclusive), never as a violation.
			info := curInfo.Load()
			first := dumpStacks()
			spin := spinning(first)
			if !strings.Contains(reason, "allocated") {
				time.Sleep(5 * time.Second)
				if curStart.Load() != st {
					fmt.Fprintf(os.Stderr, "SLOW-RUN %v took more than %v of real time\n", info, limit)
					continue
				}
				second := spinning(dumpStacks())
				for id := range spin {
					if !second[id] {
						delete(spin, id)
					}
				}
			}
			kind, code := "hang", 3
			if len(spin) == 0 {
				kind, code = "stall", 4
				reason += "; no goroutine was executing tychoish/fun code (slow machine or harness stall)"
			}
			if out := os.Getenv("VERIF_OUT"); out != "" && info != nil {
				_ = os.WriteFile(out+".hang.stacks", []byte(first), 0o644)
				short := first
				if i := strings.Index(short, "github.com/tychoish/fun"); i > 2000 {
					short = short[i-2000:]
				}
				if len(short) > 6000 {
					short = short[:6000]
				}
				b, _ := json.Marshal(map[string]any{"property": info[0], "workload": info[1], "seed": info[2], "reason": reason, "kind": kind, "stacks": short})
				_ = os.WriteFile(out+".hang", b, 0o644)
			}
			fmt.Fprintf(os.Stderr, "%s %v: %s\n", strings.ToUpper(kind), info, reason)
			os.Exit(code)
		}
	}()
}

func dumpStacks() string {
	buf := make([]byte, 1<<22)
	n := runtime.Stack(buf, true)
	return string(buf[:n])
}

// spinning returns the ids of goroutines that are running or runnable with a
// tychoish/fun frame on their stack.
func spinning(dump string) map[string]bool {
	out := map[string]bool{}
	for _, g := range strings.Split(dump, "\n\n") {
		head := strings.SplitN(g, "\n", 2)[0]
		if !strings.HasPrefix(head, "goroutine ") {
			continue
		}
		if !(strings.Contains(head, "[running") || strings.Contains(head, "[runnable")) {
			continue
		}
		if strings.Contains(g, "github.com/tychoish/fun") {
			out[strings.Fields(head)[1]] = true
		}
	}
	return out
}

func envIntCore(name string, def int) int {
	if v := os.Getenv(name); v != "" {
		var n int
		if _, err := fmt.Sscanf(v, "%d", &n); err == nil {
			return n
		}
	}
	return def
}

// RunOne executes one run of wl. A nil tape means search mode from seed.
func RunOne(t *testing.T, wl *Workload, seed uint64, replay []int32, trace bool) *Outcome {
	return RunOnePrefix(t, wl, seed, replay, nil, trace)
}

// NumCells is the number of configuration cells of a workload (1 if it declares none).
func (wl *Workload) NumCells() int {
	n := 1
	for _, r := range wl.Cells {
		n *= r
	}
	return n
}

// CellPrefix is the tape prefix (strategy draw first) that selects cell.
func (wl *Workload) CellPrefix(cell int, strategy int) []int32 {
	out := []int32{int32(strategy % len(strategyNames))}
	for _, r := range wl.Cells {
		out = append(out, int32(cell%r))
		cell /= r
	}
	return out
}

// RunOnePrefix is RunOne with the leading decisions of a search run fixed.
func RunOnePrefix(t *testing.T, wl *Workload, seed uint64, replay []int32, prefix []int32, trace bool) *Outcome {
	out := &Outcome{Prop: wl.Prop, Workload: wl.Name, Seed: seed, Faults: map[string]int{}, Probes: map[string]int{}}
	var tape *simrt.Tape
	if replay != nil {
		tape = simrt.NewReplayTape(replay)
	} else if prefix != nil {
		tape = simrt.NewSearchTapePrefix(seed, prefix)
	} else {
		tape = simrt.NewSearchTape(seed)
	}
	si := tape.Draw(len(strategyNames))
	out.Strategy = strategyNames[si]
	w := &W{Out: out, seen: map[string]bool{}, wl: wl}
	curInfo.Store(&[3]string{wl.Prop, wl.Name, fmt.Sprint(seed)})
	curStart.Store(time.Now().UnixNano())
	defer curStart.Store(0)
	body := func(t *testing.T) {
		defer func() {
			if r := recover(); r != nil {
				msg := fmt.Sprint(r)
				if !strings.Contains(msg, "blocked goroutines remain") {
					out.HarnessErr = "panic outside tasks: " + msg
				}
			}
		}()
		synctest.Test(t, func(t *testing.T) {
			cfg := simrt.Config{
				Tape: tape, MaxSteps: wl.MaxSteps, Strategy: strategyOf(si), Trace: trace,
				CheckGID: checkGID || wl.CheckGID, ClockJump: wl.ClockJump, Wait: synctest.Wait,
			}
			sim := simrt.New(cfg)
			res := sim.Run(func() {
				w.Ctx, w.stop = context.WithCancel(context.Background())
				wl.Run(w)
			})
			w.Res = res
		})
	}
	if raceBuild() {
		// a detected race makes the bubble's inner test fail, and
		// synctest.Test then calls FailNow on its T: give it a T of its own
		// so that only the subtest goroutine exits.
		t.Run("run", body)
	} else {
		body(t)
	}
	res := w.Res
	if res == nil {
		if out.HarnessErr == "" {
			out.HarnessErr = "run produced no result"
		}
		return out
	}
	out.Tape = tape.Used()
	out.Steps = res.Steps
	out.Switches = res.Switches
	out.Digest = fmt.Sprintf("%016x", res.Digest)
	out.Quiescent = res.Quiescent
	out.SimTimeNs = int64(res.SimTime)
	out.ClockJumps = res.ClockJumps
	for k, v := range res.Preempt {
		out.Probes["preempted-before-"+k] += v
	}
	if res.Strays > 0 {
		out.HarnessErr = fmt.Sprintf("%d stray goroutine(s) entered the simulator: %s", res.Strays, res.StrayInfo)
	}
	if res.Budget {
		w.Inconclusive("budget")
	} else {
		for _, ti := range res.Tasks {
			if ti.ID == "0" && ti.State != "exited" && ti.Panic == "" {
				// the workload's own root task never finished (e.g. it blocked in
				// an eager library call): nothing was judged
				w.Inconclusive("root-blocked")
			}
		}
	}
	// a panic in a harness task is a harness error unless the workload claims it
	if w.After != nil {
		w.After(res)
	}
	collectRaces(w)
	for _, ti := range res.Tasks {
		if ti.Panic != "" && panicInSimulator(ti.Stack) {
			out.HarnessErr = fmt.Sprintf("panic raised by the simulator itself in task %s (%s): %s\n%s", ti.ID, ti.Name, ti.Panic, ti.Stack)
			continue
		}
		if ti.Panic != "" && !ti.Lib && !claimed(out, ti) {
			// harness tasks run library code, so the panic may well be the library's:
			// report it as a violation of kind panic unless the stack never enters fun.
			if strings.Contains(ti.Stack, "github.com/tychoish/fun") {
				w.Violate("panic", "panic:"+panicSite(ti.Stack), "task %s (%s) panicked: %s", ti.ID, ti.Name, ti.Panic)
			} else {
				out.HarnessErr = fmt.Sprintf("harness task %s (%s) panicked: %s\n%s", ti.ID, ti.Name, ti.Panic, ti.Stack)
			}
		} else if ti.Panic != "" && ti.Lib && !claimed(out, ti) {
			w.Violate("panic", "panic:"+panicSite(ti.Stack), "library task %s (%s) panicked: %s", ti.ID, ti.Name, ti.Panic)
		}
	}
	out.History = w.hist
	if trace {
		out.Trace = res.Trace
		out.Tasks = res.Tasks
	}
	return out
}

func claimed(out *Outcome, ti simrt.TaskInfo) bool {
	for _, v := range out.Violations {
		if v.Kind == "panic" && strings.Contains(v.Msg, ti.ID+" ") {
			return true
		}
	}
	return false
}

// panicInSimulator reports whether the frame that called panic() belongs to
// the simulator run-time (a harness limitation, not a library defect).
func panicInSimulator(stack string) bool {
	lines := strings.Split(stack, "\n")
	for i, l := range lines {
		if strings.HasPrefix(l, "panic(") && i+2 < len(lines) {
			return strings.HasPrefix(lines[i+2], "verif/simrt.")
		}
	}
	return false
}

// panicSite extracts the innermost fun-package function from a stack.
func panicSite(stack string) string {
	lines := strings.Split(stack, "\n")
	for _, l := range lines {
		l = strings.TrimSpace(l)
		if i := strings.Index(l, "github.com/tychoish/fun"); i >= 0 && !strings.HasPrefix(l, "/") {
			f := l[i:]
			if j := strings.LastIndex(f, "("); j > 0 {
				f = f[:j]
			}
			f = strings.TrimPrefix(f, "github.com/tychoish/fun")
			f = strings.TrimPrefix(f, "/")
			f = strings.TrimPrefix(f, ".")
			f = strings.ReplaceAll(f, "[...]", "")
			return f
		}
	}
	return "unknown"
}

// Alive returns the tasks that have not exited, optionally only library ones.
func Alive(res *simrt.Result, libOnly bool) []simrt.TaskInfo {
	var out []simrt.TaskInfo
	for _, t := range res.Tasks {
		if t.State != "exited" && (!libOnly || t.Lib) {
			out = append(out, t)
		}
	}
	return out
}

func jsonStr(v any) string {
	b, _ := json.Marshal(v)
	return string(b)
}

// Harness code is not instrumented, so its own channel operations must go
// through the simulator explicitly: a raw receive would let the woken harness
// goroutine run beside the current task.

// hrecv is a gated receive for harness tasks.
func hrecv[T any](ch <-chan T) (T, bool) { return simrt.Recv2("harness:recv", ch) }

// hsend is a gated send for harness tasks.
func hsend[T any](ch chan<- T, v T) {
	t := simrt.Pre("harness:send")
	defer simrt.Post(t)
	ch <- v
}

// hclose is a gated close.
func hclose[T any](ch chan T) { close(simrt.G("harness:close", ch)) }
