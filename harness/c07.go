package harness

import (
	"context"
	"errors"
	"fmt"
	"time"

	"github.com/tychoish/fun/pubsub"
	"verif/simrt"
)

// C07 — blocking queue/deque operations never miss a wake-up.

type blkOp struct {
	kind     string // consumer | producer
	name     string // API name
	state    int    // 0 not started, 1 invoked, 2 returned
	val      int
	err      error
	task     string
	ctx      context.Context
	cancel   context.CancelFunc
	canceled bool // cancel() was invoked by the harness
	deadline bool // the context carries a deadline (fake clock) instead
	// the call was made with context.Background(): it can only be released
	// by the operation it waits for or by Close (and the library has no
	// context whose end would wake anybody as a side effect)
	background bool
}

type blkTarget struct {
	typ       string
	length    func() int
	capacity  int // 0 = unlimited; -1 = quota (only Len()==0 is judged as free)
	close     func()
	closed    bool
	consumers []func(ctx context.Context) (int, error)
	consNames []string
	producers []func(ctx context.Context, v int) error
	prodNames []string
	push      []func(v int) error
	pop       []func() (int, bool)
	// non-destructive iterators over the same container: they are not judged
	// here (C20 does that) but they park on the same condition variables as
	// the blocked producers and consumers, and so take part in every wake-up
	bystanders []func() func(ctx context.Context) (int, error)
	byNames    []string
}

func c07Judge(w *W, tg *blkTarget, ops []*blkOp, phase string) {
	n := tg.length()
	for _, op := range ops {
		if op.state != 1 {
			continue
		}
		site := simrt.SiteOf(op.task)
		switch {
		case op.deadline:
			// quiescence is only declared after the fake clock has been advanced
			// far beyond every deadline of the run
			w.Violate("blocked-after-deadline", fmt.Sprintf("blocked-after-deadline:%s.%s@%s", tg.typ, op.name, site),
				"%s: %s.%s still blocked at %s although its context's deadline has passed (len=%d closed=%v)", phase, tg.typ, op.name, site, n, tg.closed)
		case op.canceled:
			w.Violate("blocked-after-cancel", fmt.Sprintf("blocked-after-cancel:%s.%s@%s", tg.typ, op.name, site),
				"%s: %s.%s still blocked at %s although its context was cancelled (len=%d closed=%v)", phase, tg.typ, op.name, site, n, tg.closed)
		case tg.closed:
			w.Violate("blocked-after-close", fmt.Sprintf("blocked-after-close:%s.%s@%s", tg.typ, op.name, site),
				"%s: %s.%s still blocked at %s although the container was closed (len=%d)", phase, tg.typ, op.name, site, n)
		case op.kind == "consumer" && n > 0:
			w.Violate("blocked-while-enabled", fmt.Sprintf("blocked-while-enabled:%s.%s@%s", tg.typ, op.name, site),
				"%s: %s.%s blocked at %s while the container holds %d item(s) and nothing else can run", phase, tg.typ, op.name, site, n)
		case op.kind == "producer" && (tg.capacity == 0 || (tg.capacity > 0 && n < tg.capacity) || (tg.capacity == -1 && n == 0)):
			w.Violate("blocked-while-enabled", fmt.Sprintf("blocked-while-enabled:%s.%s@%s", tg.typ, op.name, site),
				"%s: %s.%s blocked at %s while the container has free capacity (len=%d cap=%d)", phase, tg.typ, op.name, site, n, tg.capacity)
		}
	}
}

func c07Run(w *W, tg *blkTarget, prefill int) {
	nCons := 1 + simrt.Choose(3)
	nProd := 0
	if tg.capacity != 0 && len(tg.producers) > 0 {
		nProd = simrt.Choose(3)
	}
	nPush := simrt.Choose(5)
	nPop := simrt.Choose(3)
	doClose := simrt.Choose(4) == 1
	nCancel := simrt.Choose(3)
	if !w.faulty() {
		doClose, nCancel = false, 0
	}
	w.Config("%s cap=%d prefill=%d consumers=%d producers=%d pushes=%d pops=%d close=%v cancels=%d", tg.typ, tg.capacity, prefill, nCons, nProd, nPush, nPop, doClose, nCancel)
	next := 100
	for i := 0; i < prefill; i++ {
		next++
		_ = tg.push[0](next)
	}
	var ops []*blkOp
	for i := 0; i < nCons; i++ {
		k := simrt.Choose(len(tg.consumers))
		op := &blkOp{kind: "consumer", name: tg.consNames[k]}
		op.ctx, op.cancel = c07Ctx(w, op)
		ops = append(ops, op)
		fn := tg.consumers[k]
		simrt.Spawn("consumer:"+op.name, func() {
			op.task = simrt.Self()
			op.state = 1
			op.val, op.err = fn(op.ctx)
			op.state = 2
		})
	}
	for i := 0; i < nProd; i++ {
		k := simrt.Choose(len(tg.producers))
		next++
		v := next
		op := &blkOp{kind: "producer", name: tg.prodNames[k], val: v}
		op.ctx, op.cancel = c07Ctx(w, op)
		ops = append(ops, op)
		fn := tg.producers[k]
		simrt.Spawn("producer:"+op.name, func() {
			op.task = simrt.Self()
			op.state = 1
			op.err = fn(op.ctx, v)
			op.state = 2
		})
	}
	nBy := 0
	if len(tg.bystanders) > 0 && simrt.Choose(tg.byOdds()) == 0 {
		nBy = 1 + simrt.Choose(2)
	}
	for i := 0; i < nBy; i++ {
		k := simrt.Choose(len(tg.bystanders))
		mk := tg.bystanders[k]
		simrt.Spawn("bystander:"+tg.byNames[k], func() {
			next := mk()
			for {
				if _, err := next(w.Ctx); err != nil {
					return
				}
			}
		})
	}
	if nBy > 0 {
		w.Probe("parked-iterator-bystanders")
	}
	if nPush > 0 {
		base := next
		next += nPush
		kinds := make([]int, nPush)
		for i := range kinds {
			kinds[i] = simrt.Choose(len(tg.push))
		}
		simrt.Spawn("pusher", func() {
			for i := 0; i < nPush; i++ {
				_ = tg.push[kinds[i]](base + i + 1)
			}
		})
	}
	if nPop > 0 {
		kinds := make([]int, nPop)
		for i := range kinds {
			kinds[i] = simrt.Choose(len(tg.pop))
		}
		simrt.Spawn("popper", func() {
			for i := 0; i < nPop; i++ {
				tg.pop[kinds[i]]()
			}
		})
	}
	if doClose {
		at := simrt.Choose(60)
		simrt.Spawn("fault:close", func() {
			simrt.WaitStep(at)
			tg.closed = true
			tg.close()
		})
		w.Fault("close")
	}
	for i := 0; i < nCancel; i++ {
		op := ops[simrt.Choose(len(ops))]
		at := simrt.Choose(60)
		if op.background {
			continue
		}
		simrt.Spawn("fault:cancel", func() {
			simrt.WaitStep(at)
			op.canceled = true
			op.cancel()
		})
		w.Fault("cancel")
	}

	simrt.Quiesce()
	blocked := 0
	for _, op := range ops {
		if op.state == 1 {
			blocked++
		}
	}
	w.State(fmt.Sprintf("%s q1 len=%d closed=%v blocked=%d", tg.typ, min(tg.length(), 3), tg.closed, blocked))
	c07Judge(w, tg, ops, "quiescence-1")
	if len(w.Out.Violations) > 0 {
		return
	}
	// phase 2: cancel one blocked operation's context; it must return.
	for _, op := range ops {
		if op.state == 1 && !op.canceled && !op.deadline && !op.background {
			op.canceled = true
			op.cancel()
			w.Fault("cancel-at-quiescence")
			break
		}
	}
	simrt.Quiesce()
	c07Judge(w, tg, ops, "quiescence-2(after cancel)")
	if len(w.Out.Violations) > 0 {
		return
	}
	// phase 3: close; everything must return.
	if !tg.closed {
		tg.closed = true
		tg.close()
		w.Fault("close-at-quiescence")
	}
	simrt.Quiesce()
	c07Judge(w, tg, ops, "quiescence-3(after close)")
	for _, op := range ops {
		if op.state == 2 && op.err != nil && !errors.Is(op.err, context.Canceled) && !errors.Is(op.err, context.DeadlineExceeded) && !errors.Is(op.err, pubsub.ErrQueueClosed) &&
			!errors.Is(op.err, pubsub.ErrQueueFull) && !errors.Is(op.err, pubsub.ErrQueueNoCredit) {
			w.Violate("unexpected-error", fmt.Sprintf("unexpected-error:%s.%s", tg.typ, op.name), "%s.%s returned %v", tg.typ, op.name, op.err)
		}
	}
}

func (w *W) faulty() bool { return w.wl.Faulty }

// byOdds: one run in n has iterator bystanders (the Deque's wait loops spin
// when several waiters share a condition variable, see DESIGN 1.5, so they
// are rarer there).
func (tg *blkTarget) byOdds() int {
	if tg.typ == "Deque" {
		return 4
	}
	return 2
}

// c07Ctx gives a blocking operation its own context: cancellable, or (in the
// deadline family) with a deadline on the fake clock.
func c07Ctx(w *W, op *blkOp) (context.Context, context.CancelFunc) {
	if simrt.Choose(4) == 0 {
		op.background = true
		w.Probe("background-context")
		return context.Background(), func() {}
	}
	if w.wl.ClockJump > 0 && simrt.Choose(2) == 1 {
		op.deadline = true
		w.Fault("deadline")
		return context.WithTimeout(w.Ctx, time.Duration(1+simrt.Choose(40))*time.Millisecond)
	}
	return context.WithCancel(w.Ctx)
}

func queueTarget(w *W) *blkTarget {
	var q *pubsub.Queue[int]
	tg := &blkTarget{typ: "Queue"}
	switch simrt.Choose(3) {
	case 0:
		q = pubsub.NewUnlimitedQueue[int]()
	default:
		h := 1 + simrt.Choose(3)
		var err error
		q, err = pubsub.NewQueue[int](pubsub.QueueOptions{HardLimit: h, SoftQuota: 1 + simrt.Choose(h), BurstCredit: float64(simrt.Choose(3))})
		if err != nil {
			panic(err)
		}
		tg.capacity = -1
	}
	d := q.Distributor()
	tg.length = q.Len
	tg.close = func() { _ = q.Close() }
	tg.consumers = []func(ctx context.Context) (int, error){q.Wait, d.Receive}
	tg.consNames = []string{"Wait", "Distributor.Receive"}
	tg.producers = []func(ctx context.Context, v int) error{q.BlockingAdd}
	tg.prodNames = []string{"BlockingAdd"}
	tg.push = []func(v int) error{q.Add}
	tg.pop = []func() (int, bool){q.Remove}
	tg.bystanders = []func() func(ctx context.Context) (int, error){
		func() func(ctx context.Context) (int, error) { return q.Producer() },
		func() func(ctx context.Context) (int, error) { it := q.Iterator(); return it.ReadOne },
	}
	tg.byNames = []string{"Queue.Producer", "Queue.Iterator"}
	return tg
}

func dequeTarget(w *W) *blkTarget {
	tg := &blkTarget{typ: "Deque"}
	var dq *pubsub.Deque[int]
	switch simrt.Choose(3) {
	case 0:
		dq = pubsub.NewUnlimitedDeque[int]()
	default:
		c := 1 + simrt.Choose(3)
		var err error
		dq, err = pubsub.NewDeque[int](pubsub.DequeOptions{Capacity: c})
		if err != nil {
			panic(err)
		}
		tg.capacity = c
	}
	d := dq.Distributor()
	tg.length = dq.Len
	tg.close = func() { _ = dq.Close() }
	tg.consumers = []func(ctx context.Context) (int, error){dq.WaitFront, dq.WaitBack, d.Receive}
	tg.consNames = []string{"WaitFront", "WaitBack", "Distributor.Receive"}
	tg.producers = []func(ctx context.Context, v int) error{dq.WaitPushFront, dq.WaitPushBack, d.Send}
	tg.prodNames = []string{"WaitPushFront", "WaitPushBack", "Distributor.Send"}
	dn := dq.DistributorNonBlocking()
	tg.consumers = append(tg.consumers, dn.Receive)
	tg.consNames = append(tg.consNames, "DistributorNonBlocking.Receive")
	tg.push = []func(v int) error{dq.PushFront, dq.PushBack, dq.ForcePushFront, dq.ForcePushBack, func(v int) error { return dn.Send(context.Background(), v) }}
	tg.pop = []func() (int, bool){dq.PopFront, dq.PopBack}
	tg.bystanders = []func() func(ctx context.Context) (int, error){
		func() func(ctx context.Context) (int, error) { return dq.ProducerBlocking() },
		func() func(ctx context.Context) (int, error) { return dq.ProducerReverseBlocking() },
	}
	tg.byNames = []string{"Deque.ProducerBlocking", "Deque.ProducerReverseBlocking"}
	return tg
}

func init() {
	Register(&Workload{Prop: "C07", Name: "queue-deadline", Faulty: true, MaxSteps: 4000, ClockJump: 25, Run: func(w *W) {
		c07Run(w, queueTarget(w), simrt.Choose(3))
	}})
	Register(&Workload{Prop: "C07", Name: "deque-deadline", Faulty: true, MaxSteps: 4000, ClockJump: 25, Run: func(w *W) {
		c07Run(w, dequeTarget(w), simrt.Choose(3))
	}})
	// model-based family: the operations still blocked at quiescence are judged
	// against the sequential model's state (exact capacity, incl. the moving
	// soft quota), with parked iterators taking part in the wake-ups
	Register(&Workload{Prop: "C07", Name: "queue-model", Faulty: true, MaxSteps: 8000, Run: func(w *W) { c05RunMode(w, true) }})
	Register(&Workload{Prop: "C07", Name: "deque-model", Faulty: true, MaxSteps: 8000, Run: func(w *W) { c06RunMode(w, true) }})
	for _, faulty := range []bool{false, true} {
		suffix := ""
		if faulty {
			suffix = "-faults"
		}
		Register(&Workload{Prop: "C07", Name: "queue" + suffix, Faulty: faulty, MaxSteps: 4000, Run: func(w *W) {
			tg := queueTarget(w)
			c07Run(w, tg, simrt.Choose(3))
		}})
		Register(&Workload{Prop: "C07", Name: "deque" + suffix, Faulty: faulty, MaxSteps: 4000, Run: func(w *W) {
			tg := dequeTarget(w)
			c07Run(w, tg, simrt.Choose(3))
		}})
	}
}
