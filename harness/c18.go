package harness

import (
	"context"
	"fmt"
	"sort"
	"strconv"
	"strings"

	"github.com/tychoish/fun"
	"github.com/tychoish/fun/dt"
	"verif/simrt"
)

// C18 — dt.Set behaves as a mathematical set (optionally insertion-ordered).

type setIn struct {
	Op string
	V  int
}
type setOut struct {
	B    bool
	N    int
	List []int
}

func (i setIn) String() string  { return fmt.Sprintf("%s(%d)", i.Op, i.V) }
func (o setOut) String() string { return fmt.Sprintf("{b=%v n=%d list=%v}", o.B, o.N, o.List) }

// model state: "o|1,3,2" (ordered) or "u|1,2,3" (unordered, kept sorted)
func decSet(s string) (bool, []int) {
	parts := strings.SplitN(s, "|", 2)
	var vals []int
	if parts[1] != "" {
		for _, f := range strings.Split(parts[1], ",") {
			v, _ := strconv.Atoi(f)
			vals = append(vals, v)
		}
	}
	return parts[0] == "o", vals
}

func encSet(ordered bool, vals []int) string {
	if !ordered {
		vals = append([]int{}, vals...)
		sort.Ints(vals)
	}
	strs := make([]string, len(vals))
	for i, v := range vals {
		strs[i] = strconv.Itoa(v)
	}
	tag := "u"
	if ordered {
		tag = "o"
	}
	return tag + "|" + strings.Join(strs, ",")
}

func indexOf(vals []int, v int) int {
	for i, x := range vals {
		if x == v {
			return i
		}
	}
	return -1
}

func setStep(state string, in, out any) []string {
	ordered, vals := decSet(state)
	i := in.(setIn)
	if _, pend := out.(Pending); pend {
		return []string{state}
	}
	o := out.(setOut)
	idx := indexOf(vals, i.V)
	switch i.Op {
	case "Add", "AddCheck":
		if i.Op == "AddCheck" && o.B != (idx >= 0) {
			return nil
		}
		if idx >= 0 {
			return []string{state} // re-adding a present value does not move it
		}
		return []string{encSet(ordered, append(append([]int{}, vals...), i.V))}
	case "Delete", "DeleteCheck":
		if i.Op == "DeleteCheck" && o.B != (idx >= 0) {
			return nil
		}
		if idx < 0 {
			return []string{state}
		}
		nv := append(append([]int{}, vals[:idx]...), vals[idx+1:]...)
		return []string{encSet(ordered, nv)}
	case "Check":
		if o.B != (idx >= 0) {
			return nil
		}
		return []string{state}
	case "Len":
		if o.N != len(vals) {
			return nil
		}
		return []string{state}
	case "SortAsc", "SortDesc":
		// a sort is one atomic step: the set becomes (stays) ordered and holds
		// the same members in comparator order
		nv := append([]int{}, vals...)
		sort.Ints(nv)
		if i.Op == "SortDesc" {
			for a, b := 0, len(nv)-1; a < b; a, b = a+1, b-1 {
				nv[a], nv[b] = nv[b], nv[a]
			}
		}
		return []string{encSet(true, nv)}
	case "Iterate":
		got := append([]int{}, o.List...)
		want := append([]int{}, vals...)
		if !ordered {
			sort.Ints(got)
			sort.Ints(want)
		}
		if !sameSeq(got, want) {
			return nil
		}
		return []string{state}
	}
	return nil
}

func newSet(ordered, synced bool) *dt.Set[int] {
	s := &dt.Set[int]{}
	if ordered {
		s.Order()
	}
	if synced {
		s.Synchronize()
	}
	return s
}

// iterate drains the set's iterator; more than 64 items from a set over a
// 4-value domain means the iteration does not terminate (reported as -1).
func iterate(ctx context.Context, s *dt.Set[int]) []int {
	it := s.Iterator()
	var out []int
	for {
		v, err := it.ReadOne(ctx)
		if err != nil {
			break
		}
		out = append(out, v)
		if len(out) > 64 {
			_ = it.Close()
			return []int{-1}
		}
	}
	_ = it.Close()
	return out
}

func c18Concurrent(w *W) {
	ordered := simrt.Choose(2) == 1
	s := newSet(ordered, true)
	h := &Hist{}
	nTasks := 2 + simrt.Choose(2)
	for t := 0; t < nTasks; t++ {
		client := t + 1
		nOps := 1 + simrt.Choose(5)
		type op struct {
			kind, v int
		}
		ops := make([]op, nOps)
		for i := range ops {
			ops[i] = op{simrt.Choose(7), 1 + simrt.Choose(4)}
		}
		simrt.Spawn(fmt.Sprintf("client%d", client), func() {
			for _, o := range ops {
				switch o.kind {
				case 0:
					r := h.Invoke(client, setIn{"Add", o.v})
					s.Add(o.v)
					h.Return(r, setOut{})
				case 1:
					r := h.Invoke(client, setIn{"AddCheck", o.v})
					b := s.AddCheck(o.v)
					h.Return(r, setOut{B: b})
				case 2:
					r := h.Invoke(client, setIn{"Delete", o.v})
					s.Delete(o.v)
					h.Return(r, setOut{})
				case 3:
					r := h.Invoke(client, setIn{"DeleteCheck", o.v})
					b := s.DeleteCheck(o.v)
					h.Return(r, setOut{B: b})
				case 4:
					r := h.Invoke(client, setIn{"Check", o.v})
					b := s.Check(o.v)
					h.Return(r, setOut{B: b})
				case 5:
					r := h.Invoke(client, setIn{"Len", 0})
					n := s.Len()
					h.Return(r, setOut{N: n})
				case 6:
					// the comparator is user code: it may be slow (a yield)
					desc := o.v%2 == 0
					lt := func(a, b int) bool { simrt.Yield(); return (a < b) != desc }
					name := "SortAsc"
					if desc {
						name = "SortDesc"
					}
					r := h.Invoke(client, setIn{name, 0})
					if o.v <= 2 {
						s.SortQuick(lt)
					} else {
						s.SortMerge(lt)
					}
					h.Return(r, setOut{})
				}
			}
		})
	}
	simrt.Quiesce()
	// multi-step operations are compared in the quiescent state
	r := h.Invoke(0, setIn{"Iterate", 0})
	h.Return(r, setOut{List: iterate(w.Ctx, s)})
	w.Config("concurrent ordered=%v tasks=%d", ordered, nTasks)
	w.State(fmt.Sprintf("conc ordered=%v len=%d", ordered, s.Len()))
	w.hist = h.Strings()
	w.After = func(res *simrt.Result) {
		if !res.Budget {
			CheckLin(w, h, encSet(ordered, nil), setStep, "non-linearizable:Set")
		}
	}
}

func c18Sequential(w *W) {
	// two live sets (A is the one most operations go to): Extend and Equal
	// take another *live* set as their argument, and an operation on one set
	// must never disturb the other
	ordered0 := simrt.Choose(2) == 1
	synced := simrt.Choose(2) == 1
	ordered1 := simrt.Choose(2) == 1
	sets := [2]*dt.Set[int]{newSet(ordered0, synced), newSet(ordered1, simrt.Choose(2) == 1)}
	ords := [2]bool{ordered0, ordered1}
	var models [2][]int // insertion order (sorted order after a sort)
	ctx := w.Ctx
	nOps := 1 + simrt.Choose(12)
	var trace []string
	fail := func(kind, format string, a ...any) {
		w.Violate(kind, kind+":Set", "after %v: "+format, append([]any{trace}, a...)...)
	}
	lt := func(a, b int) bool { return a < b }
	for k := 0; k < nOps && len(w.Out.Violations) == 0; k++ {
		cur := 0
		if simrt.Choose(4) == 3 {
			cur = 1
		}
		s, model, ordered := sets[cur], models[cur], ords[cur]
		other, otherModel, otherOrdered := sets[1-cur], models[1-cur], ords[1-cur]
		tag := "AB"[cur : cur+1]
		v := 1 + simrt.Choose(4)
		idx := indexOf(model, v)
		op := simrt.Choose(12)
		trace = append(trace, tag+":")
		switch op {
		case 11:
			trace = append(trace, "Extend(other live set)")
			s.Extend(other)
			for _, x := range otherModel {
				if indexOf(model, x) < 0 {
					model = append(model, x)
				}
			}
			if !otherOrdered {
				// an unordered source is iterated in no particular order: an
				// ordered receiver's order among the new items is unspecified
				if ordered {
					model = iterate(ctx, s)
					got := append([]int{}, model...)
					want := append([]int{}, models[cur]...)
					for _, x := range otherModel {
						if indexOf(want, x) < 0 {
							want = append(want, x)
						}
					}
					sort.Ints(got)
					sort.Ints(want)
					if !sameSeq(got, want) {
						fail("extend", "Extend(unordered %v) left %v", otherModel, model)
					}
				}
			}
		case 0:
			trace = append(trace, fmt.Sprintf("Add(%d)", v))
			s.Add(v)
			if idx < 0 {
				model = append(model, v)
			}
		case 1:
			trace = append(trace, fmt.Sprintf("AddCheck(%d)", v))
			if got := s.AddCheck(v); got != (idx >= 0) {
				fail("addcheck", "AddCheck(%d) = %v, model has it: %v", v, got, idx >= 0)
			}
			if idx < 0 {
				model = append(model, v)
			}
		case 2:
			trace = append(trace, fmt.Sprintf("Delete(%d)", v))
			s.Delete(v)
			if idx >= 0 {
				model = append(append([]int{}, model[:idx]...), model[idx+1:]...)
			}
		case 3:
			trace = append(trace, fmt.Sprintf("DeleteCheck(%d)", v))
			if got := s.DeleteCheck(v); got != (idx >= 0) {
				fail("deletecheck", "DeleteCheck(%d) = %v, model has it: %v", v, got, idx >= 0)
			}
			if idx >= 0 {
				model = append(append([]int{}, model[:idx]...), model[idx+1:]...)
			}
		case 4:
			trace = append(trace, fmt.Sprintf("Check(%d)", v))
			if got := s.Check(v); got != (idx >= 0) {
				fail("check", "Check(%d) = %v, want %v", v, got, idx >= 0)
			}
		case 5:
			vals := []int{1 + simrt.Choose(4), 1 + simrt.Choose(4), 1 + simrt.Choose(4)}
			trace = append(trace, fmt.Sprintf("Populate(%v)", vals))
			s.Populate(fun.SliceIterator(vals))
			for _, x := range vals {
				if indexOf(model, x) < 0 {
					model = append(model, x)
				}
			}
		case 6:
			other := newSet(true, false)
			vals := []int{1 + simrt.Choose(4), 1 + simrt.Choose(4)}
			for _, x := range vals {
				other.Add(x)
			}
			trace = append(trace, fmt.Sprintf("Extend(%v)", vals))
			s.Extend(other)
			for _, x := range vals {
				if indexOf(model, x) < 0 {
					model = append(model, x)
				}
			}
		case 7:
			if simrt.Choose(2) == 0 {
				trace = append(trace, "SortQuick")
				s.SortQuick(lt)
			} else {
				trace = append(trace, "SortMerge")
				s.SortMerge(lt)
			}
			sort.Ints(model)
			ordered = true
		case 8:
			// Equal against a set built from the model (same orderedness)
			trace = append(trace, "Equal(same)")
			other := newSet(ordered, false)
			for _, x := range model {
				other.Add(x)
			}
			if !s.Equal(other) {
				fail("equal", "Equal(set with the same members %v) is false", model)
			}
			if len(model) > 0 {
				diff := newSet(ordered, false)
				for _, x := range model[1:] {
					diff.Add(x)
				}
				diff.Add(9)
				if s.Equal(diff) {
					fail("equal", "Equal(set with different members) is true")
				}
			}
			if ordered && len(model) > 1 {
				rev := newSet(true, false)
				for i := len(model) - 1; i >= 0; i-- {
					rev.Add(model[i])
				}
				if s.Equal(rev) {
					fail("equal-order", "Equal(ordered set with the same members in reverse order %v) is true", model)
				}
			}
		case 9:
			trace = append(trace, "JSON round trip")
			b, err := s.MarshalJSON()
			if err != nil {
				fail("json", "MarshalJSON: %v", err)
				break
			}
			back := newSet(ordered, false)
			if err := back.UnmarshalJSON(b); err != nil {
				fail("json", "UnmarshalJSON(%s): %v", b, err)
				break
			}
			got := iterate(ctx, back)
			want := append([]int{}, model...)
			if !ordered {
				sort.Ints(got)
				sort.Ints(want)
			}
			if !sameSeq(got, want) {
				fail("json", "JSON %s round-trips to %v, want %v", b, got, want)
			}
		case 10:
			trace = append(trace, "Len")
			if n := s.Len(); n != len(model) {
				fail("len", "Len() = %d, want %d", n, len(model))
			}
		}
		if len(w.Out.Violations) > 0 {
			break
		}
		models[cur], ords[cur] = model, ordered
		for i := range sets {
			got := iterate(ctx, sets[i])
			want := append([]int{}, models[i]...)
			if !ords[i] {
				sort.Ints(got)
				sort.Ints(want)
			}
			if !sameSeq(got, want) {
				fail("iteration", "iteration of set %s yields %v, want %v (ordered=%v)", "AB"[i:i+1], got, want, ords[i])
			}
			if n := sets[i].Len(); n != len(models[i]) {
				fail("len", "Len() of set %s = %d, want %d", "AB"[i:i+1], n, len(models[i]))
			}
		}
		// Equal between the two live sets, where the statement defines it
		if ords[0] == ords[1] && len(w.Out.Violations) == 0 {
			want := sameMultiset(models[0], models[1])
			if ords[0] {
				want = sameSeq(models[0], models[1])
			}
			if got := sets[0].Equal(sets[1]); got != want {
				fail("equal-live", "A.Equal(B) = %v with A=%v B=%v (ordered=%v)", got, models[0], models[1], ords[0])
			}
		}
	}
	w.Config("sequential ordered=%v/%v synced=%v ops=%v", ords[0], ords[1], synced, trace)
	w.State(fmt.Sprintf("seq ordered=%v synced=%v n=%d", ords[0], synced, min(len(models[0]), 4)))
	w.hist = trace
}

func init() {
	Register(&Workload{Prop: "C18", Name: "concurrent", MaxSteps: 8000, Run: c18Concurrent})
	Register(&Workload{Prop: "C18", Name: "sequential", MaxSteps: 8000, Run: c18Sequential})
}
