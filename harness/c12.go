package harness

import (
	"errors"
	"fmt"

	"github.com/tychoish/fun/erc"
	"github.com/tychoish/fun/ers"
	"verif/simrt"
)

// C12 — error aggregation is lossless and errors.Is/As/Unwind-consistent.

type typedErr struct{ code int }

func (e *typedErr) Error() string { return fmt.Sprintf("typed-%d", e.code) }

type otherTyped struct{}

func (*otherTyped) Error() string { return "other-typed" }

// advisoryErr is a non-nil error that reports itself as "ok" (the kind of type
// ers.Ok exists for). Handed to Join / Stack / Collector it is a supplied
// non-nil constituent like any other.
type advisoryErr struct{ n int }

func (a *advisoryErr) Error() string { return fmt.Sprintf("advisory-%d", a.n) }
func (a *advisoryErr) Ok() bool      { return true }

// userMulti / userUnwinder are multi-errors written outside the library that
// hand out their own stored slice, nil entries included (a caller's
// aggregate type; the library may read that slice, it is not its to rewrite).
type userMulti struct{ errs []error }

func (u *userMulti) Error() string   { return fmt.Sprintf("user-multi%v", u.errs) }
func (u *userMulti) Unwrap() []error { return u.errs }

type userUnwinder struct{ errs []error }

func (u *userUnwinder) Error() string   { return fmt.Sprintf("user-unwinder%v", u.errs) }
func (u *userUnwinder) Unwind() []error { return u.errs }

// etree is a generated error expression together with what was supplied.
type etree struct {
	err    error   // the value built by the library
	leaves []error // supplied non-nil constituents, in supply order
	notes  []string
	typed  []*typedErr
	inners []error // errors reachable only through single wrapping of a supplied constituent
	desc   string
	plain  bool // a single plain (non-aggregate) error
	// the value is a typed nil pointer inside a non-nil error interface: a
	// nil input that the combinators must ignore
	typedNil bool
	advisory bool // the value is an *advisoryErr itself
	extras   int  // annotation / marker errors added by Wrap, Wrapf, ParsePanic
}

type egen struct {
	next      int
	derived   []error // non-nil layers peeled off aggregates
	multis    []error // caller-owned multi-errors handed to the library
	multiSnap [][]error
}

func (g *egen) leaf() etree {
	g.next++
	switch simrt.Choose(6) {
	case 5:
		e := &advisoryErr{n: g.next}
		return etree{err: e, leaves: []error{e}, desc: e.Error(), plain: true, advisory: true}
	case 0:
		// a nil input: the untyped nil, or the nil *Stack the library itself
		// hands out (AsStack(nil); ers.Ok reports it as "no error")
		switch simrt.Choose(4) {
		case 0:
			var st *ers.Stack
			return etree{err: st, desc: "nil(*Stack)", typedNil: true}
		case 1:
			return etree{err: ers.AsStack(nil), desc: "AsStack(nil)", typedNil: true}
		}
		return etree{desc: "nil"}
	case 1:
		e := ers.Error(fmt.Sprintf("const-%d", g.next))
		return etree{err: e, leaves: []error{e}, desc: string(e), plain: true}
	case 2:
		e := &typedErr{code: g.next}
		return etree{err: e, leaves: []error{e}, typed: []*typedErr{e}, desc: e.Error(), plain: true}
	case 3:
		// the wrapper is the supplied constituent; the inner error must stay reachable
		if simrt.Choose(3) == 0 {
			// a single %w around a standard multi-error: the wrapper has only
			// Unwrap() error, so it is kept intact, and both inner errors must
			// be found through it
			x := &errSentinel{fmt.Sprintf("multi-%da", g.next)}
			y := &typedErr{code: g.next}
			e := fmt.Errorf("ctx-%d: %w", g.next, errors.Join(x, y))
			return etree{err: e, leaves: []error{e}, inners: []error{x, y}, typed: []*typedErr{y}, desc: e.Error(), plain: true}
		}
		if simrt.Choose(2) == 0 {
			inner := &typedErr{code: g.next}
			e := fmt.Errorf("ctx-%d: %w", g.next, inner)
			return etree{err: e, leaves: []error{e}, inners: []error{inner}, typed: []*typedErr{inner}, desc: e.Error(), plain: true}
		}
		inner := &errSentinel{fmt.Sprintf("inner-%d", g.next)}
		e := fmt.Errorf("ctx-%d: %w", g.next, inner)
		return etree{err: e, leaves: []error{e}, inners: []error{inner}, desc: e.Error(), plain: true}
	default:
		e := &errSentinel{fmt.Sprintf("ptr-%d", g.next)}
		return etree{err: e, leaves: []error{e}, desc: e.name, plain: true}
	}
}

func merge(desc string, parts ...etree) etree {
	out := etree{desc: desc}
	for _, p := range parts {
		out.leaves = append(out.leaves, p.leaves...)
		out.typed = append(out.typed, p.typed...)
		out.inners = append(out.inners, p.inners...)
		out.notes = append(out.notes, p.notes...)
		out.extras += p.extras
	}
	return out
}

func (g *egen) tree(depth int) etree {
	if depth <= 0 {
		return g.leaf()
	}
	switch simrt.Choose(9) {
	case 0, 1:
		return g.leaf()
	case 8:
		// an operand obtained by peeling one layer off an aggregate
		// (errors.Unwrap of a Stack hands out the rest of the stack as an
		// ordinary non-nil error) and fed back into the combinators
		p := g.tree(depth - 1)
		st, ok := p.err.(*ers.Stack)
		if !ok || st == nil {
			return p
		}
		d := errors.Unwrap(st)
		if d == nil {
			return p
		}
		sub := etree{desc: "Unwrap(" + p.desc + ")", extras: p.extras, notes: nil}
		for _, l := range p.leaves {
			if errors.Is(d, l) {
				sub.leaves = append(sub.leaves, l)
			}
		}
		for _, l := range p.inners {
			if errors.Is(d, l) {
				sub.inners = append(sub.inners, l)
			}
		}
		if len(sub.leaves) == 0 {
			return p // the layer holds annotations / markers only
		}
		g.derived = append(g.derived, d)
		out := merge("", sub)
		switch simrt.Choose(5) {
		case 0:
			out.desc = "Wrap(" + sub.desc + ")"
			out.err = ers.Wrap(d, "annotation")
			out.extras++
		case 1:
			out.desc = "Wrapf(" + sub.desc + ")"
			out.err = ers.Wrapf(d, "annotation-%d", 2)
			out.extras++
		case 2:
			out.desc = "Join(" + sub.desc + ")"
			out.err = ers.Join(d)
		case 3:
			l := g.leaf()
			out = merge("Join("+sub.desc+","+l.desc+")", sub, l)
			out.err = ers.Join(d, l.err)
		default:
			out.desc = "Collector(" + sub.desc + ")"
			ec := &erc.Collector{}
			ec.Add(d)
			out.err = ec.Resolve()
		}
		return out
	case 2: // ers.Join of 1..4 parts
		n := 1 + simrt.Choose(4)
		parts := make([]etree, n)
		errs := make([]error, n)
		descs := ""
		for i := range parts {
			parts[i] = g.tree(depth - 1)
			errs[i] = parts[i].err
			descs += parts[i].desc + ","
		}
		out := merge("Join("+descs+")", parts...)
		out.err = ers.Join(errs...)
		nonNil := 0
		var only etree
		for _, p := range parts {
			if !isNilErr(p.err) {
				nonNil++
				only = p
			}
		}
		out.plain = nonNil == 1 && only.plain
		return out
	case 3: // ers.Wrap / Wrapf
		p := g.tree(depth - 1)
		if _, isAdv := p.err.(*advisoryErr); isAdv {
			// Wrap / Wrapf are documented to return nil for an error that
			// reports Ok(): whether that counts as "a nil input" the
			// statement does not say, so such a value is not wrapped here
			return p
		}
		out := merge("Wrap("+p.desc+")", p)
		switch simrt.Choose(3) {
		case 0:
			out.err = ers.Wrap(p.err, "annotation")
		case 1:
			out.err = ers.Wrapf(p.err, "annotation-%d", 1)
		default:
			// the annotation itself wraps an error (%w): that error is part of
			// the result like any other singly-wrapped constituent
			g.next++
			via := &errSentinel{fmt.Sprintf("via-%d", g.next)}
			out.err = ers.Wrapf(p.err, "annotation-%d: %w", 2, via)
			out.desc = "Wrapf%w(" + p.desc + ")"
			if !isNilErr(p.err) {
				out.inners = append(out.inners, via)
			}
		}
		if !isNilErr(p.err) {
			out.extras++
		}
		return out
	case 4: // errors.Join (std multi-error) pushed through ers.Join
		a, b := g.tree(depth-1), g.tree(depth-1)
		out := merge("Join(errors.Join("+a.desc+","+b.desc+"))", a, b)
		if shape := simrt.Choose(3); shape > 0 && !(isNilErr(a.err) && isNilErr(b.err)) && !a.typedNil && !b.typedNil {
			// the same through a multi-error type of the caller's, whose slice
			// has nil entries in front of / between the others
			var multi error
			if shape == 1 {
				multi = &userMulti{errs: []error{a.err, nil, b.err}}
				out.desc = "Join(userMulti(" + a.desc + ",nil," + b.desc + "))"
			} else {
				multi = &userUnwinder{errs: []error{nil, a.err, b.err}}
				out.desc = "Join(userUnwinder(nil," + a.desc + "," + b.desc + "))"
			}
			g.multis = append(g.multis, multi)
			switch u := multi.(type) {
			case *userMulti:
				g.multiSnap = append(g.multiSnap, append([]error{}, u.errs...))
			case *userUnwinder:
				g.multiSnap = append(g.multiSnap, append([]error{}, u.errs...))
			}
			out.err = ers.Join(multi)
			return out
		}
		out.err = ers.Join(errors.Join(a.err, b.err))
		return out
	case 5: // Stack in Stack
		a, b := g.tree(depth-1), g.tree(depth-1)
		st := &ers.Stack{}
		st.Push(a.err)
		outer := &ers.Stack{}
		outer.Push(st.Resolve())
		outer.Push(b.err)
		out := merge("Stack(Stack("+a.desc+"),"+b.desc+")", a, b)
		out.err = outer.Resolve()
		return out
	case 6: // ParsePanic
		p := g.tree(depth - 1)
		out := merge("ParsePanic("+p.desc+")", p)
		if isNilErr(p.err) {
			out.err = ers.ParsePanic(nil)
			return out
		}
		out.err = ers.ParsePanic(p.err)
		out.extras++ // ErrRecoveredPanic
		out.notes = append(out.notes, "panic")
		return out
	default: // erc.Collector
		n := 1 + simrt.Choose(3)
		ec := &erc.Collector{}
		parts := make([]etree, n)
		descs := ""
		for i := range parts {
			parts[i] = g.tree(depth - 1)
			ec.Add(parts[i].err)
			descs += parts[i].desc + ","
		}
		out := merge("Collector("+descs+")", parts...)
		out.err = ec.Resolve()
		return out
	}
}

// isNilErr: nil, or the nil *Stack (a leaf of that kind passed through
// untouched is still "no error").
func isNilErr(err error) bool {
	if err == nil {
		return true
	}
	st, ok := err.(*ers.Stack)
	return ok && st == nil
}

func reachable(from error, target error) bool {
	for e := from; e != nil; e = errors.Unwrap(e) {
		if e == target {
			return true
		}
	}
	return false
}

func judgeTree(w *W, t etree, where string) {
	sig := func(k string) string { return k + ":" + where }
	if isNilErr(t.err) != (len(t.leaves) == 0) {
		w.Violate("nil-mismatch", sig("nil-mismatch"), "%s: %d non-nil errors supplied but result is %v", t.desc, len(t.leaves), t.err)
		return
	}
	if isNilErr(t.err) {
		return
	}
	unrelated := ers.Error("unrelated-sentinel")
	if errors.Is(t.err, unrelated) {
		w.Violate("is-unrelated", sig("is-unrelated"), "%s: errors.Is(result, unrelated sentinel) is true", t.desc)
	}
	var ot *otherTyped
	if errors.As(t.err, &ot) {
		w.Violate("as-unrelated", sig("as-unrelated"), "%s: errors.As(result, *otherTyped) succeeded", t.desc)
	}
	for _, l := range t.leaves {
		if !errors.Is(t.err, l) {
			w.Violate("is-lost", sig("is-lost"), "%s: errors.Is(result, %v) is false", t.desc, l)
		}
	}
	for _, l := range t.inners {
		if !errors.Is(t.err, l) {
			w.Violate("is-lost", sig("is-lost:wrapped"), "%s: errors.Is(result, %v) is false for an error wrapped with %%w inside a constituent", t.desc, l)
		}
	}
	if len(t.typed) > 0 {
		var te *typedErr
		if !errors.As(t.err, &te) {
			w.Violate("as-lost", sig("as-lost"), "%s: errors.As(result, *typedErr) failed although %d typed errors were supplied", t.desc, len(t.typed))
		}
	}
	for _, n := range t.notes {
		if n == "panic" && !errors.Is(t.err, ers.ErrRecoveredPanic) {
			w.Violate("is-lost", sig("is-lost:panic"), "%s: a parsed panic does not satisfy errors.Is(ErrRecoveredPanic)", t.desc)
		}
	}
	list := ers.Unwind(t.err)
	for _, l := range t.leaves {
		c := 0
		for _, u := range list {
			if u == l {
				c++
			}
		}
		if c != 1 {
			w.Violate("unwind-count", sig("unwind-count"), "%s: constituent %v appears %d times in Unwind %v", t.desc, l, c, list)
		}
	}
	invented := 0
	for _, u := range list {
		ok := false
		for _, l := range t.leaves {
			if reachable(l, u) {
				ok = true
			}
		}
		for _, l := range t.inners {
			// (reached through a supplied wrapper, possibly via a multi-error)
			if l == u {
				ok = true
			}
		}
		if !ok {
			invented++
		}
	}
	if invented > t.extras {
		w.Violate("unwind-invented", sig("unwind-invented"), "%s: Unwind %v holds %d entries that were not supplied (at most %d annotations/markers expected)", t.desc, list, invented, t.extras)
	}
}

func c12Trees(w *W) {
	g := &egen{}
	// flat Join first: order and the single-error identity are only defined there
	n := simrt.Choose(5)
	var errs, nonNil []error
	desc := ""
	for i := 0; i < n; i++ {
		l := g.leaf()
		errs = append(errs, l.err)
		if !isNilErr(l.err) {
			nonNil = append(nonNil, l.err)
		}
		desc += l.desc + ","
	}
	flat := ers.Join(errs...)
	if len(nonNil) == 1 && flat != nonNil[0] {
		w.Violate("join-single", "join-single", "Join(%s) of one plain error returned %v, not the error itself", desc, flat)
	}
	if len(nonNil) > 1 {
		list := ers.Unwind(flat)
		ok := len(list) == len(nonNil)
		for i := 0; ok && i < len(list); i++ {
			if list[i] != nonNil[len(nonNil)-1-i] {
				ok = false
			}
		}
		if !ok {
			w.Violate("unwind-order", "unwind-order", "Join(%s): Unwind is %v, want the supplied errors most recent first", desc, list)
		}
	}
	depth := 1 + simrt.Choose(5)
	t := g.tree(depth)
	w.Config("flat=Join(%s) tree=%s", desc, t.desc)
	w.State(fmt.Sprintf("depth=%d leaves=%d", depth, min(len(t.leaves), 6)))
	judgeTree(w, t, "tree")
	// through single wrapping: an aggregate that somebody annotates with %w is
	// still unwound into its constituents (Unwind is preferred over Unwrap at
	// every level, not only at the top), and Is/As still reach them
	if !isNilErr(t.err) && len(w.Out.Violations) == 0 {
		outer := fmt.Errorf("outer: %w", t.err)
		list := ers.Unwind(outer)
		for _, l := range t.leaves {
			c := 0
			for _, u := range list {
				if u == l {
					c++
				}
			}
			if c != 1 {
				w.Violate("unwind-count", "unwind-count:through-single-wrap", "%s: constituent %v appears %d times in Unwind(fmt.Errorf(\"outer: %%w\", result)) = %v", t.desc, l, c, list)
				break
			}
			if !errors.Is(outer, l) {
				w.Violate("is-lost", "is-lost:through-single-wrap", "%s: errors.Is(fmt.Errorf(\"outer: %%w\", result), %v) is false", t.desc, l)
				break
			}
		}
	}
	// helpers that decide "is this an error at all" must agree with != nil
	for _, d := range append(append([]error{}, g.derived...), t.err) {
		if isNilErr(d) {
			continue
		}
		if _, isAdv := d.(*advisoryErr); isAdv {
			continue // says Ok() of itself: that is its author's decision
		}
		if ers.Ok(d) || !ers.IsError(d) {
			w.Violate("nonnil-error-is-ok", "nonnil-error-is-ok", "ers.Ok(%v) = %v, ers.IsError = %v for a non-nil error holding %v", d, ers.Ok(d), ers.IsError(d), ers.Unwind(d))
		}
		if got := ers.Append(nil, nil, d, nil); len(got) != 1 || got[0] != d {
			w.Violate("append-dropped", "append-dropped", "ers.Append(nil, nil, e, nil) = %v for the non-nil error %v", got, d)
		}
		if got := ers.RemoveOk([]error{nil, d}); len(got) != 1 || got[0] != d {
			w.Violate("removeok-dropped", "removeok-dropped", "ers.RemoveOk([nil, e]) = %v for the non-nil error %v", got, d)
		}
	}
	// a caller's multi-error is read, never rewritten: looked at again (alone,
	// through a single wrap, joined once more) it still lists what it listed
	for i, m := range g.multis {
		w.Probe("caller-owned-multi-error-operand")
		first := ers.Unwind(m)
		_ = ers.Unwind(fmt.Errorf("outer: %w", m))
		_ = ers.Unwind(ers.Join(m, ers.Error("one-more")))
		second := ers.Unwind(m)
		var now []error
		switch u := m.(type) {
		case *userMulti:
			now = u.errs
		case *userUnwinder:
			now = u.errs
		}
		same := len(now) == len(g.multiSnap[i]) && len(first) == len(second)
		for k := 0; same && k < len(now); k++ {
			same = now[k] == g.multiSnap[i][k]
		}
		for k := 0; same && k < len(first); k++ {
			same = first[k] == second[k]
		}
		if !same {
			w.Violate("operand-rewritten", "operand-rewritten", "a caller-owned multi-error that held %v holds %v after the library looked at it (Unwind before: %v, after: %v)", g.multiSnap[i], now, first, second)
		}
	}
}

func c12Collector(w *W) {
	ec := &erc.Collector{}
	nAdders := 2 + simrt.Choose(3)
	joined := simrt.Choose(2) == 1
	var supplied []error
	invoked, returned := 0, 0
	next := 0
	for a := 0; a < nAdders; a++ {
		k := 1 + simrt.Choose(4)
		var mine []error
		for i := 0; i < k; i++ {
			next++
			switch simrt.Choose(4) {
			case 0:
				mine = append(mine, nil)
			case 1:
				if joined {
					x, y := &errSentinel{fmt.Sprintf("j%da", next)}, &errSentinel{fmt.Sprintf("j%db", next)}
					supplied = append(supplied, x, y)
					mine = append(mine, ers.Join(x, y))
					continue
				}
				fallthrough
			default:
				e := &errSentinel{fmt.Sprintf("e%d", next)}
				supplied = append(supplied, e)
				mine = append(mine, e)
			}
		}
		simrt.Spawn(fmt.Sprintf("adder%d", a), func() {
			for _, e := range mine {
				if e != nil {
					invoked++
				}
				ec.Add(e)
				if e != nil {
					returned++
				}
				simrt.Yield()
			}
		})
	}
	nObs := simrt.Choose(3)
	for o := 0; o < nObs; o++ {
		simrt.Spawn(fmt.Sprintf("observer%d", o), func() {
			for i := 0; i < 4; i++ {
				lo := returned
				n := ec.Len()
				hi := invoked
				if !joined && (n < lo || n > hi) {
					w.Violate("len-bounds", "len-bounds", "Collector.Len() = %d while between %d and %d non-nil Adds had completed/started", n, lo, hi)
				}
				if err := ec.Resolve(); err != nil {
					for _, u := range ers.Unwind(err) {
						found := false
						for _, s := range supplied {
							if u == s {
								found = true
							}
						}
						if !found {
							w.Violate("invented", "invented:collector", "a resolved collector holds %v which was never added", u)
						}
					}
				}
				if ec.HasErrors() != (ec.Len() > 0) && false {
					_ = 0
				}
				simrt.Yield()
			}
		})
	}
	simrt.Quiesce()
	w.Config("collector adders=%d joined=%v observers=%d supplied=%d", nAdders, joined, nObs, len(supplied))
	w.State(fmt.Sprintf("collector joined=%v n=%d", joined, min(len(supplied), 8)))
	final := etree{err: ec.Resolve(), leaves: supplied, desc: "Collector(concurrent)"}
	judgeTree(w, final, "collector")
	if !joined && ec.Len() != len(supplied) {
		w.Violate("len-final", "len-final", "Collector.Len() = %d after %d non-nil Adds", ec.Len(), len(supplied))
	}
}

func init() {
	Register(&Workload{Prop: "C12", Name: "collector", MaxSteps: 6000, Run: c12Collector})
	Register(&Workload{Prop: "C12", Name: "trees", MaxSteps: 2000, Run: c12Trees})
}
