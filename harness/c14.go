package harness

import (
	"context"
	"fmt"
	"strconv"
	"strings"

	"github.com/tychoish/fun"
	"verif/simrt"
)

// C14 — fun.WaitGroup: Wait returns iff the counter is zero or its context ended.

type wgIn struct {
	Op string // add | wait | num
	N  int
}
type wgOut struct {
	Live     bool // wait: context still live when it returned
	Num      int
	Panicked bool
}

func (i wgIn) String() string { return fmt.Sprintf("%s(%d)", i.Op, i.N) }
func (o wgOut) String() string {
	return fmt.Sprintf("{live=%v num=%d panic=%v}", o.Live, o.Num, o.Panicked)
}

func wgStep(state string, in, out any) []string {
	c, _ := strconv.Atoi(state)
	i := in.(wgIn)
	if _, pend := out.(Pending); pend {
		switch i.Op {
		case "add":
			if c+i.N >= 0 {
				return []string{state, strconv.Itoa(c + i.N)}
			}
			return []string{state}
		default:
			return []string{state}
		}
	}
	o := out.(wgOut)
	switch i.Op {
	case "add":
		if c+i.N < 0 {
			if o.Panicked {
				return []string{state}
			}
			return nil
		}
		if o.Panicked {
			return nil
		}
		return []string{strconv.Itoa(c + i.N)}
	case "wait":
		if !o.Live || c == 0 {
			return []string{state}
		}
		return nil
	case "num":
		if o.Num == c {
			return []string{state}
		}
		return nil
	}
	return nil
}

type wgWaiter struct {
	state    int
	task     string
	ctx      context.Context
	cancel   context.CancelFunc
	canceled bool
	op       *HOp
	// called with context.Background(): only the counter can release it
	background bool
}

func c14Counter(w *W) {
	wg := &fun.WaitGroup{}
	h := &Hist{}
	rounds := 1 + simrt.Choose(3)
	client := 0
	var allWaiters []*wgWaiter
	judge := func(phase string) {
		n := wg.Num()
		for _, wt := range allWaiters {
			if wt.state != 1 {
				continue
			}
			site := simrt.SiteOf(wt.task)
			if wt.canceled {
				w.Violate("blocked-after-cancel", "blocked-after-cancel:WaitGroup.Wait@"+site, "%s: Wait still blocked at %s although its context was cancelled (counter=%d)", phase, site, n)
			} else if n == 0 {
				w.Violate("blocked-at-zero", "blocked-at-zero:WaitGroup.Wait@"+site, "%s: Wait still blocked at %s although the counter is 0 and nothing else can run", phase, site)
			}
		}
	}
	cfg := []string{}
	for r := 0; r < rounds; r++ {
		nAdders := 1 + simrt.Choose(3)
		nWaiters := 1 + simrt.Choose(3)
		nNum := simrt.Choose(2)
		nCancel := 0
		if w.faulty() {
			nCancel = simrt.Choose(3)
		}
		cfg = append(cfg, fmt.Sprintf("round%d{adders=%d waiters=%d num=%d cancels=%d}", r, nAdders, nWaiters, nNum, nCancel))
		for a := 0; a < nAdders; a++ {
			client++
			id := client
			n := 1 + simrt.Choose(3)
			split := simrt.Choose(2) == 1 // Add(n) at once, or n times Inc
			hold := simrt.Choose(3) == 0  // never call Done (counter stays positive this round)
			simrt.Spawn("adder", func() {
				if split {
					for i := 0; i < n; i++ {
						op := h.Invoke(id, wgIn{"add", 1})
						wg.Inc()
						h.Return(op, wgOut{})
					}
				} else {
					op := h.Invoke(id, wgIn{"add", n})
					wg.Add(n)
					h.Return(op, wgOut{})
				}
				if hold && r < rounds-1 {
					// released at the start of a later phase by the root
					return
				}
				for i := 0; i < n; i++ {
					simrt.Yield()
					op := h.Invoke(id, wgIn{"add", -1})
					wg.Done()
					h.Return(op, wgOut{})
				}
			})
			if hold && r < rounds-1 {
				// balanced at the end of the round by the root, after the judgement
				w.held = append(w.held, n)
			}
		}
		var waiters []*wgWaiter
		for i := 0; i < nWaiters; i++ {
			client++
			id := client
			wt := &wgWaiter{}
			if simrt.Choose(4) == 0 {
				wt.background = true
				wt.ctx, wt.cancel = context.Background(), func() {}
			} else {
				wt.ctx, wt.cancel = context.WithCancel(w.Ctx)
			}
			waiters = append(waiters, wt)
			allWaiters = append(allWaiters, wt)
			simrt.Spawn("waiter", func() {
				wt.task = simrt.Self()
				wt.state = 1
				wt.op = h.Invoke(id, wgIn{"wait", 0})
				wg.Wait(wt.ctx)
				// sample liveness before anything else can run
				live := !wt.canceled
				h.Return(wt.op, wgOut{Live: live})
				wt.state = 2
			})
		}
		for i := 0; i < nNum; i++ {
			client++
			id := client
			simrt.Spawn("num", func() {
				simrt.Yield()
				op := h.Invoke(id, wgIn{"num", 0})
				v := wg.Num()
				h.Return(op, wgOut{Num: v})
			})
		}
		for i := 0; i < nCancel; i++ {
			wt := waiters[simrt.Choose(len(waiters))]
			at := simrt.Stamp() + simrt.Choose(50)
			if wt.background {
				continue
			}
			simrt.Spawn("fault:cancel", func() {
				simrt.WaitStep(at)
				wt.canceled = true
				wt.cancel()
			})
			w.Fault("cancel")
		}
		simrt.Quiesce()
		blocked := 0
		for _, wt := range allWaiters {
			if wt.state == 1 {
				blocked++
			}
		}
		w.State(fmt.Sprintf("wg counter=%d blocked=%d", min(wg.Num(), 4), blocked))
		judge(fmt.Sprintf("round %d quiescence", r))
		if len(w.Out.Violations) > 0 {
			break
		}
		// release what was held so that the next round starts from zero or not (either is fine)
		for _, n := range w.held {
			for i := 0; i < n; i++ {
				op := h.Invoke(0, wgIn{"add", -1})
				wg.Done()
				h.Return(op, wgOut{})
			}
		}
		w.held = nil
		simrt.Quiesce()
		judge(fmt.Sprintf("round %d after release", r))
		if len(w.Out.Violations) > 0 {
			break
		}
	}
	w.Config("%s", strings.Join(cfg, " "))
	if len(w.Out.Violations) == 0 {
		// invariant family: an Add that would make the counter negative panics and changes nothing
		c := wg.Num()
		op := h.Invoke(0, wgIn{"add", -(c + 1)})
		panicked := false
		func() {
			defer func() {
				if recover() != nil {
					panicked = true
				}
			}()
			wg.Add(-(c + 1))
		}()
		h.Return(op, wgOut{Panicked: panicked})
		op = h.Invoke(0, wgIn{"num", 0})
		h.Return(op, wgOut{Num: wg.Num()})
		// waiters that cannot be cancelled are released through the counter
		for _, wt := range allWaiters {
			if wt.state == 1 && wt.background {
				for k := wg.Num(); k > 0; k-- {
					op := h.Invoke(0, wgIn{"add", -1})
					wg.Done()
					h.Return(op, wgOut{})
				}
				simrt.Quiesce()
				judge("final (counter driven to zero for uncancellable waiters)")
				break
			}
		}
		// cancel every remaining waiter: all must return
		for _, wt := range allWaiters {
			if wt.state == 1 && !wt.background {
				wt.canceled = true
				wt.cancel()
				w.Fault("cancel-at-quiescence")
			}
		}
		simrt.Quiesce()
		judge("final")
	}
	w.hist = h.Strings()
	w.After = func(res *simrt.Result) {
		if res.Budget {
			return
		}
		CheckLin(w, h, "0", wgStep, "non-linearizable:WaitGroup")
	}
}

func c14Launch(w *W) {
	wg := &fun.WaitGroup{}
	h := &Hist{}
	k := 1 + simrt.Choose(4)
	mode := simrt.Choose(4)
	modes := []string{"Launch", "DoTimes", "Operation.Add", "StartGroup"}
	nWaiters := 1 + simrt.Choose(2)
	// "top up the pool to its target size" when the pool is already at or above
	// it: a further DoTimes/StartGroup with a count of zero or less starts
	// nothing and accounts for nothing
	topUp := []int{1, 1, 0, -1, -2}[simrt.Choose(5)]
	w.Config("mode=%s k=%d extra-waiters=%d top-up=%d", modes[mode], k, nWaiters, topUp)
	exits := make([]int64, 0, k)
	body := fun.Operation(func(ctx context.Context) {
		simrt.Yield()
		if simrt.Choose(2) == 1 {
			simrt.Yield()
		}
		exits = append(exits, h.Tick())
	})
	type wrec struct {
		call, ret int64
		state     int
	}
	var launchedAt int64
	recs := []*wrec{}
	launcher := &wrec{}
	recs = append(recs, launcher)
	// the context the work is launched with is not the waiters' context: it
	// may have ended before the launch, or end while the workers are being
	// started. Every goroutine that is started must still be accounted for, and
	// every unit that was added must be started (the body ignores its context).
	lctx, lcancel := context.WithCancel(w.Ctx)
	switch simrt.Choose(4) {
	case 0:
		lcancel()
		w.Fault("launch-context-already-cancelled")
	case 1:
		at := simrt.Choose(30)
		simrt.Spawn("fault:cancel-launch-context", func() {
			simrt.WaitStep(at)
			lcancel()
		})
		w.Fault("launch-context-cancelled")
	}
	simrt.Spawn("launcher", func() {
		switch mode {
		case 0:
			for i := 0; i < k; i++ {
				wg.Launch(lctx, body)
			}
		case 1:
			wg.DoTimes(lctx, k, body)
			if topUp <= 0 {
				wg.DoTimes(lctx, topUp, body)
			}
		case 2:
			for i := 0; i < k; i++ {
				body.Add(lctx, wg)
			}
		case 3:
			body.StartGroup(lctx, wg, k)
			if topUp <= 0 {
				body.StartGroup(lctx, wg, topUp)
			}
		}
		launchedAt = h.Tick()
		launcher.state = 1
		launcher.call = h.Tick()
		wg.Wait(w.Ctx)
		launcher.ret = h.Tick()
		launcher.state = 2
	})
	for i := 0; i < nWaiters; i++ {
		r := &wrec{}
		recs = append(recs, r)
		simrt.Spawn("waiter", func() {
			simrt.Yield()
			r.state = 1
			r.call = h.Tick()
			wg.Wait(w.Ctx)
			r.ret = h.Tick()
			r.state = 2
		})
	}
	simrt.Quiesce()
	if len(exits) != k {
		w.Violate("launch-lost", "launch-lost:"+modes[mode], "%s started %d operations but %d ran to completion at quiescence", modes[mode], k, len(exits))
	}
	for i, r := range recs {
		if r.state != 2 {
			w.Violate("blocked-at-zero", "blocked-at-zero:WaitGroup.Wait(launch)", "waiter %d still blocked at quiescence after all %d launched operations finished (counter=%d)", i, k, wg.Num())
			continue
		}
		if launchedAt != 0 && r.call > launchedAt {
			for _, e := range exits {
				if e > r.ret {
					w.Violate("wait-returned-early", "wait-returned-early:"+modes[mode], "Wait invoked after %s returned came back at %d before a launched operation finished at %d", modes[mode], r.ret, e)
					break
				}
			}
		}
	}
	if n := wg.Num(); n != 0 {
		w.Violate("counter-mismatch", "counter-mismatch:"+modes[mode], "counter is %d after all launched operations finished", n)
	}
}

func init() {
	Register(&Workload{Prop: "C14", Name: "counter", MaxSteps: 6000, Run: c14Counter})
	Register(&Workload{Prop: "C14", Name: "counter-faults", Faulty: true, MaxSteps: 6000, Run: c14Counter})
	Register(&Workload{Prop: "C14", Name: "launch", Faulty: true, MaxSteps: 6000, Run: c14Launch})
}
