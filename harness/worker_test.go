package harness

import (
	"encoding/json"
	"fmt"
	"os"
	"runtime"
	"strconv"
	"strings"
	"testing"
	"time"
)

var checkGID = os.Getenv("VERIF_CHECKGID") == "1"

type wlAgg struct {
	Runs         int            `json:"runs"`
	Violating    int            `json:"violating_runs"`
	Inconclusive map[string]int `json:"inconclusive"`
	Steps        int64          `json:"steps"`
	Faulty       bool           `json:"fault_injecting"`
}

type sigAgg struct {
	Count   int      `json:"count"`
	Example *Outcome `json:"example"`
}

type Agg struct {
	Prop       string                 `json:"property"`
	Runs       int                    `json:"runs"`
	ByWorkload map[string]*wlAgg      `json:"by_workload"`
	Digests    []string               `json:"digests_nontrivial"`
	Faults     map[string]int         `json:"faults"`
	Probes     map[string]int         `json:"probes"`
	Strategies map[string]int         `json:"strategies"`
	States     []string               `json:"states"`
	Samples    []*Outcome             `json:"samples"`
	Sigs       map[string]*sigAgg     `json:"signatures"`
	Steps      int64                  `json:"steps_total"`
	SimTimeNs  int64                  `json:"sim_time_ns"`
	Switches   int64                  `json:"switches_total"`
	ClockJumps int64                  `json:"clock_jumps"`
	HarnessErr []string               `json:"harness_errors"`
	WallS      float64                `json:"wall_s"`
	Race       bool                   `json:"race_build"`
	Cells      map[string]map[int]int `json:"cells,omitempty"`       // workload -> cell -> runs (enumeration mode)
	CellsTotal map[string]int         `json:"cells_total,omitempty"` // workload -> number of cells
}

func envInt(name string, def int) int {
	if v := os.Getenv(name); v != "" {
		if n, err := strconv.Atoi(v); err == nil {
			return n
		}
	}
	return def
}

func writeJSON(path string, v any) {
	b, err := json.Marshal(v)
	if err != nil {
		fmt.Fprintf(os.Stderr, "HARNESS-ERROR marshal: %v\n", err)
		os.Exit(2)
	}
	if err := os.WriteFile(path, b, 0o644); err != nil {
		fmt.Fprintf(os.Stderr, "HARNESS-ERROR write: %v\n", err)
		os.Exit(2)
	}
}

func TestWorker(t *testing.T) {
	mode := os.Getenv("VERIF_MODE")
	if mode == "" {
		t.Skip("VERIF_MODE not set")
	}
	prop := os.Getenv("VERIF_PROP")
	out := os.Getenv("VERIF_OUT")
	switch mode {
	case "search":
		search(t, prop, out)
	case "replay":
		replay(t, out)
	case "minimise":
		minimise(t, out)
	case "digests":
		digests(t, prop, out)
	case "list":
		for _, w := range registry {
			fmt.Printf("WORKLOAD %s %s faulty=%v\n", w.Prop, w.Name, w.Faulty)
		}
	default:
		fmt.Fprintf(os.Stderr, "HARNESS-ERROR unknown mode %q\n", mode)
		os.Exit(2)
	}
}

func search(t *testing.T, prop, outPath string) {
	wls := WorkloadsFor(prop, os.Getenv("VERIF_WORKLOADS"))
	if len(wls) == 0 {
		fmt.Fprintf(os.Stderr, "HARNESS-ERROR no workloads for %q\n", prop)
		os.Exit(2)
	}
	seed0 := uint64(envInt("VERIF_SEED0", 1))
	n := envInt("VERIF_NRUNS", 100)
	deadline := time.Now().Add(time.Duration(envInt("VERIF_MAXSEC", 3600)) * time.Second)
	agg := &Agg{Prop: prop, ByWorkload: map[string]*wlAgg{}, Faults: map[string]int{}, Probes: map[string]int{},
		Strategies: map[string]int{}, Sigs: map[string]*sigAgg{}, Race: raceBuild()}
	digests := map[string]bool{}
	states := map[string]bool{}
	start := time.Now()
	enum := os.Getenv("VERIF_ENUM") == "1"
	agg.Cells = map[string]map[int]int{}
	agg.CellsTotal = map[string]int{}
	for _, wl := range wls {
		if len(wl.Cells) > 0 {
			agg.CellsTotal[wl.Name] = wl.NumCells()
		}
	}
	for i := 0; i < n; i++ {
		if time.Now().After(deadline) {
			break
		}
		seed := seed0 + uint64(i)
		wl := wls[int(seed%uint64(len(wls)))]
		var o *Outcome
		if enum && len(wl.Cells) > 0 {
			k := seed / uint64(len(wls))
			cell := int(k % uint64(wl.NumCells()))
			o = RunOnePrefix(t, wl, seed, nil, wl.CellPrefix(cell, int(k/uint64(wl.NumCells()))), false)
			cs := agg.Cells[wl.Name]
			if cs == nil {
				cs = map[int]int{}
				agg.Cells[wl.Name] = cs
			}
			cs[cell]++
		} else {
			o = RunOne(t, wl, seed, nil, false)
		}
		agg.Runs++
		wa := agg.ByWorkload[wl.Name]
		if wa == nil {
			wa = &wlAgg{Inconclusive: map[string]int{}, Faulty: wl.Faulty}
			agg.ByWorkload[wl.Name] = wa
		}
		wa.Runs++
		wa.Steps += int64(o.Steps)
		agg.Steps += int64(o.Steps)
		agg.Switches += int64(o.Switches)
		agg.SimTimeNs += o.SimTimeNs
		agg.ClockJumps += int64(o.ClockJumps)
		agg.Strategies[o.Strategy]++
		if o.HarnessErr != "" {
			if len(agg.HarnessErr) < 5 {
				agg.HarnessErr = append(agg.HarnessErr, fmt.Sprintf("%s seed=%d: %s", wl.Name, seed, o.HarnessErr))
			}
			continue
		}
		if o.Inconclusive != "" {
			wa.Inconclusive[o.Inconclusive]++
		}
		for k, v := range o.Faults {
			agg.Faults[k] += v
		}
		for k, v := range o.Probes {
			agg.Probes[k] += v
		}
		for _, s := range o.States {
			states[s] = true
		}
		if o.NonTrivial() {
			digests[o.Digest] = true
		}
		if len(o.Violations) > 0 {
			wa.Violating++
			seen := map[string]bool{}
			for _, v := range o.Violations {
				key := wl.Name + "|" + v.Sig
				if seen[key] {
					continue
				}
				seen[key] = true
				sa := agg.Sigs[key]
				if sa == nil {
					sa = &sigAgg{Example: o}
					agg.Sigs[key] = sa
				} else if len(o.Tape) < len(sa.Example.Tape) {
					sa.Example = o
				}
				sa.Count++
			}
		} else if len(agg.Samples) < 3 && o.NonTrivial() && o.Inconclusive == "" {
			agg.Samples = append(agg.Samples, o)
		}
	}
	for d := range digests {
		agg.Digests = append(agg.Digests, d)
	}
	for s := range states {
		agg.States = append(agg.States, s)
	}
	agg.WallS = time.Since(start).Seconds()
	writeJSON(outPath, agg)
}

func findWorkload(prop, name string) *Workload {
	for _, w := range registry {
		if w.Prop == prop && w.Name == name {
			return w
		}
	}
	fmt.Fprintf(os.Stderr, "HARNESS-ERROR unknown workload %s/%s\n", prop, name)
	os.Exit(2)
	return nil
}

func readOutcome(path string) *Outcome {
	b, err := os.ReadFile(path)
	if err != nil {
		fmt.Fprintf(os.Stderr, "HARNESS-ERROR %v\n", err)
		os.Exit(2)
	}
	var o Outcome
	if err := json.Unmarshal(b, &o); err != nil {
		fmt.Fprintf(os.Stderr, "HARNESS-ERROR %s: %v\n", path, err)
		os.Exit(2)
	}
	return &o
}

// replay re-runs the tape in VERIF_IN and writes the traced outcome.
func replay(t *testing.T, outPath string) {
	in := readOutcome(os.Getenv("VERIF_IN"))
	wl := findWorkload(in.Prop, in.Workload)
	tape := in.Tape
	if tape == nil && !in.FromSeed {
		tape = []int32{}
	}
	o := RunOne(t, wl, in.Seed, tape, true)
	o.GoVersion = runtime.Version()
	o.NumCPU = runtime.NumCPU()
	writeJSON(outPath, o)
}

func hasSig(o *Outcome, sig string) bool {
	for _, v := range o.Violations {
		if v.Sig == sig {
			return true
		}
	}
	return false
}

// minimise shrinks the tape in VERIF_IN while a violation with signature
// VERIF_SIG persists (delta debugging; every candidate is a fresh bubble).
func minimise(t *testing.T, outPath string) {
	in := readOutcome(os.Getenv("VERIF_IN"))
	sig := os.Getenv("VERIF_SIG")
	wl := findWorkload(in.Prop, in.Workload)
	budget := envInt("VERIF_MIN_RUNS", 2000)
	deadline := time.Now().Add(time.Duration(envInt("VERIF_MIN_SEC", 60)) * time.Second)
	runs := 0
	try := func(tp []int32) bool {
		if runs >= budget || time.Now().After(deadline) {
			return false
		}
		runs++
		o := RunOne(t, wl, in.Seed, tp, false)
		return o.HarnessErr == "" && hasSig(o, sig)
	}
	tape := append([]int32{}, in.Tape...)
	if !try(tape) {
		fmt.Fprintf(os.Stderr, "HARNESS-ERROR minimise: tape does not reproduce %q\n", sig)
		os.Exit(2)
	}
	trim := func(tp []int32) []int32 {
		for len(tp) > 0 && tp[len(tp)-1] == 0 {
			tp = tp[:len(tp)-1]
		}
		return tp
	}
	tape = trim(tape)
	for pass := 0; pass < 3; pass++ {
		before := len(tape)
		changed := false
		for chunk := len(tape) / 2; chunk >= 1; chunk /= 2 {
			for i := 0; i+chunk <= len(tape); {
				cand := append(append([]int32{}, tape[:i]...), tape[i+chunk:]...)
				if try(cand) {
					tape = cand
					changed = true
				} else {
					i += chunk
				}
			}
		}
		for i := 0; i < len(tape); i++ {
			if tape[i] == 0 {
				continue
			}
			cand := append([]int32{}, tape...)
			cand[i] = 0
			if try(cand) {
				tape = cand
				changed = true
				continue
			}
			if tape[i] > 1 {
				cand[i] = tape[i] / 2
				if try(cand) {
					tape = cand
					changed = true
				}
			}
		}
		tape = trim(tape)
		if !changed || len(tape) == before && pass > 0 {
			break
		}
	}
	o := RunOne(t, wl, in.Seed, tape, true)
	if !hasSig(o, sig) {
		// budget ran out mid-way; fall back to the original tape
		o = RunOne(t, wl, in.Seed, in.Tape, true)
	}
	o.GoVersion = runtime.Version()
	o.NumCPU = runtime.NumCPU()
	o.Config += fmt.Sprintf(" [minimised: %d -> %d tape entries in %d runs]", len(in.Tape), len(o.Tape), runs)
	writeJSON(outPath, o)
	_ = strings.TrimSpace
}

// digests writes one line per run (seed workload digest steps verdict) for
// the determinism self-test.
func digests(t *testing.T, prop, outPath string) {
	wls := WorkloadsFor(prop, os.Getenv("VERIF_WORKLOADS"))
	seed0 := uint64(envInt("VERIF_SEED0", 1))
	n := envInt("VERIF_NRUNS", 100)
	var sb strings.Builder
	for i := 0; i < n; i++ {
		seed := seed0 + uint64(i)
		wl := wls[int(seed%uint64(len(wls)))]
		o := RunOne(t, wl, seed, nil, false)
		sigs := ""
		for _, v := range o.Violations {
			sigs += v.Sig + ";"
		}
		fmt.Fprintf(&sb, "%d %s %s %d %d %s|%s|%s\n", seed, wl.Name, o.Digest, o.Steps, len(o.Tape), o.Inconclusive, sigs, o.HarnessErr)
	}
	if err := os.WriteFile(outPath, []byte(sb.String()), 0o644); err != nil {
		os.Exit(2)
	}
}
