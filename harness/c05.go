package harness

import (
	"context"
	"errors"
	"fmt"
	"strconv"
	"strings"

	"github.com/tychoish/fun/pubsub"
	"verif/simrt"
)

// C05 / C06 — Queue and Deque linearizability against sequential models.

// qState is the sequential model state shared by the queue and deque models.
// kind: 0 unlimited, 1 fixed capacity (deque), 2 quota/credit (transcribed
// from the documentation comments in pubsub/queue.go and pubsub/tracker.go).
type qState struct {
	items  []int
	closed bool
	kind   int
	hard   int
	soft   int
	credit float64
}

func (s qState) enc() string {
	var sb strings.Builder
	for _, v := range s.items {
		sb.WriteString(strconv.Itoa(v))
		sb.WriteByte(',')
	}
	fmt.Fprintf(&sb, "|%v|%d|%d|%d|%s", s.closed, s.kind, s.hard, s.soft, strconv.FormatFloat(s.credit, 'g', -1, 64))
	return sb.String()
}

func decQ(str string) qState {
	parts := strings.Split(str, "|")
	var s qState
	if parts[0] != "" {
		for _, f := range strings.Split(strings.TrimSuffix(parts[0], ","), ",") {
			v, _ := strconv.Atoi(f)
			s.items = append(s.items, v)
		}
	}
	s.closed = parts[1] == "true"
	s.kind, _ = strconv.Atoi(parts[2])
	s.hard, _ = strconv.Atoi(parts[3])
	s.soft, _ = strconv.Atoi(parts[4])
	s.credit, _ = strconv.ParseFloat(parts[5], 64)
	return s
}

// admit applies the admission rules; returns the error class ("" ok, "full",
// "nocredit") and the updated state (length not yet incremented).
func (s qState) admit() (string, qState) {
	n := len(s.items)
	switch s.kind {
	case 0:
		return "", s
	case 1:
		if n >= s.hard {
			return "full", s
		}
		return "", s
	}
	// "Adding items in excess of the hard limit will fail unconditionally. For
	// items in excess of the soft quota ... costs 1 unit of burst credit. If
	// there is not enough burst credit, the add will fail."  Exceeding the
	// soft quota "deducts burst credit and raises the soft quota".
	if n >= s.soft {
		if n == s.hard {
			return "full", s
		}
		if s.credit < 1 {
			return "nocredit", s
		}
		s.credit--
		s.soft = n + 1
	}
	return "", s
}

// removed applies the credit rules after one item left (items already shortened).
func (s qState) removed() qState {
	if s.kind != 2 {
		return s
	}
	n := len(s.items)
	// "Removing items from the queue adds additional credit if the resulting
	// queue length is less than the current soft quota"; below half the soft
	// quota the quota is lowered first; "Burst credit is capped by the hard
	// limit" (minus the soft quota).
	if n < s.soft {
		if s.soft > 1 && n < s.soft/2 {
			s.soft--
		}
		s.credit += float64(s.soft-n) / float64(s.soft)
		if c := float64(s.hard - s.soft); s.credit > c {
			s.credit = c
		}
	}
	return s
}

// capacity is what the blocking adds compare the length against.
func (s qState) capacity() int {
	switch s.kind {
	case 0:
		return int(^uint(0) >> 1)
	case 1:
		return s.hard
	}
	return s.soft
}

func (s qState) pushBack(v int) qState {
	s.items = append(append([]int{}, s.items...), v)
	return s
}
func (s qState) pushFront(v int) qState {
	s.items = append([]int{v}, s.items...)
	return s
}
func (s qState) popFront() (int, qState) {
	v := s.items[0]
	s.items = append([]int{}, s.items[1:]...)
	return v, s.removed()
}
func (s qState) popBack() (int, qState) {
	v := s.items[len(s.items)-1]
	s.items = append([]int{}, s.items[:len(s.items)-1]...)
	return v, s.removed()
}

type qIn struct {
	Op string
	V  int
}
type qOut struct {
	V   int
	Ok  bool
	Err string // "", closed, full, nocredit, ctx, other:<msg>
}

func (i qIn) String() string { return fmt.Sprintf("%s(%d)", i.Op, i.V) }
func (o qOut) String() string {
	return fmt.Sprintf("{v=%d ok=%v err=%q}", o.V, o.Ok, o.Err)
}

func errClass(err error) string {
	switch {
	case err == nil:
		return ""
	case errors.Is(err, context.Canceled), errors.Is(err, context.DeadlineExceeded):
		return "ctx"
	case errors.Is(err, pubsub.ErrQueueClosed):
		return "closed"
	case errors.Is(err, pubsub.ErrQueueFull):
		return "full"
	case errors.Is(err, pubsub.ErrQueueNoCredit):
		return "nocredit"
	}
	return "other:" + err.Error()
}

func same(s qState) []string { return []string{s.enc()} }

// queueStep is the sequential specification of pubsub.Queue.
func queueStep(state string, in, out any) []string {
	s := decQ(state)
	i := in.(qIn)
	if _, pend := out.(Pending); pend {
		return same(s) // still blocked at quiescence: no effect
	}
	if strings.HasPrefix(i.Op, blockedPrefix) {
		// observation (C07): the operation was blocked at quiescence
		switch strings.TrimPrefix(i.Op, blockedPrefix) {
		case "BlockingAdd":
			if !s.closed && s.capacity() <= len(s.items) {
				return same(s)
			}
		case "Wait", "Receive":
			if !s.closed && len(s.items) == 0 {
				return same(s)
			}
		}
		return nil
	}
	o := out.(qOut)
	if o.Err == "ctx" {
		return same(s) // "an operation that returns a context error has no effect"
	}
	switch i.Op {
	case "Add", "Send":
		if s.closed {
			if o.Err == "closed" {
				return same(s)
			}
			return nil
		}
		cls, ns := s.admit()
		if cls != "" {
			if o.Err == cls {
				return same(s)
			}
			return nil
		}
		if o.Err != "" {
			return nil
		}
		return same(ns.pushBack(i.V))
	case "BlockingAdd":
		if o.Err == "closed" {
			if s.closed {
				return same(s)
			}
			return nil
		}
		if o.Err != "" || s.closed || s.capacity() <= len(s.items) {
			return nil
		}
		cls, ns := s.admit()
		if cls != "" {
			return nil
		}
		return same(ns.pushBack(i.V))
	case "Remove":
		if len(s.items) == 0 {
			if !o.Ok {
				return same(s)
			}
			return nil
		}
		v, ns := s.popFront()
		if o.Ok && o.V == v {
			return same(ns)
		}
		return nil
	case "Wait", "Receive":
		if o.Err == "closed" {
			if s.closed && len(s.items) == 0 {
				return same(s)
			}
			return nil
		}
		if o.Err != "" || len(s.items) == 0 {
			return nil
		}
		v, ns := s.popFront()
		if o.V == v {
			return same(ns)
		}
		return nil
	case "Len", "DLen":
		if o.V == len(s.items) {
			return same(s)
		}
		return nil
	case "Close":
		s.closed = true
		return same(s)
	}
	return nil
}

type linClient struct {
	ops []func()
}

type blockingCall struct {
	ctx      context.Context
	cancel   context.CancelFunc
	canceled bool
	op       *HOp // the recorded operation made with this context
}

// blockedAfterCancel (C07, model-based families): an operation whose own
// context has ended must not be pending at quiescence.
func blockedAfterCancel(w *W, typ string, calls []*blockingCall) {
	for _, b := range calls {
		if b.canceled && b.op != nil && b.op.Pending {
			w.Violate("blocked-after-cancel", fmt.Sprintf("blocked-after-cancel:%s:model:%v", typ, b.op.In), "at quiescence %v is still blocked although its context was cancelled", b.op.In)
		}
	}
}

func c05Run(w *W) { c05RunMode(w, false) }

// c05RunMode: with liveness set (C07's registration) parked iterators take
// part and the operations still blocked at quiescence are judged against the
// model state; linearizability itself is then C05's business.
func c05RunMode(w *W, liveness bool) {
	h := &Hist{}
	var q *pubsub.Queue[int]
	init := qState{}
	switch simrt.Choose(3) {
	case 0:
		q = pubsub.NewUnlimitedQueue[int]()
		w.Config("unlimited")
	case 1:
		hl := 1 + simrt.Choose(4)
		q, _ = pubsub.NewQueue[int](pubsub.QueueOptions{HardLimit: hl, SoftQuota: hl})
		init = qState{kind: 2, hard: hl, soft: hl, credit: float64(hl)}
		w.Config("hard=%d soft=%d", hl, hl)
	case 2:
		hl := 2 + simrt.Choose(3)
		sq := 1 + simrt.Choose(hl-1)
		bc := []float64{0, 1, 0.5, 2}[simrt.Choose(4)]
		q, _ = pubsub.NewQueue[int](pubsub.QueueOptions{HardLimit: hl, SoftQuota: sq, BurstCredit: bc})
		if bc == 0 {
			bc = float64(sq)
		}
		init = qState{kind: 2, hard: hl, soft: sq, credit: bc}
		w.Config("hard=%d soft=%d credit=%v", hl, sq, bc)
	}
	d := q.Distributor()
	nClients := 2 + simrt.Choose(3)
	next := 0
	// the queue may already hold items (and have used credit) when the
	// concurrent phase starts
	for k := simrt.Choose(4); k > 0; k-- {
		next++
		op := h.Invoke(0, qIn{"Add", next})
		err := q.Add(next)
		h.Return(op, qOut{Err: errClass(err)})
	}
	var calls []*blockingCall
	mk := func() *blockingCall {
		b := &blockingCall{}
		switch simrt.Choose(10) {
		case 0, 1:
			// an uncancellable caller: only the operation it waits for (or
			// Close) can release it
			b.ctx, b.cancel = context.Background(), func() {}
			return b
		case 2:
			// a caller whose context has already ended when it calls
			b.ctx, b.cancel = context.WithCancel(w.Ctx)
			b.cancel()
			b.canceled = true
			calls = append(calls, b)
			return b
		}
		b.ctx, b.cancel = context.WithCancel(w.Ctx)
		calls = append(calls, b)
		return b
	}
	for c := 0; c < nClients; c++ {
		client := c + 1
		nOps := 2 + simrt.Choose(5)
		var seq []func()
		for k := 0; k < nOps; k++ {
			kind := simrt.Choose(11)
			if kind == 10 && !(w.faulty() && simrt.Choose(3) == 0) {
				kind = 0 // Close is rare and only in the fault family
			}
			next++
			v := next
			switch kind {
			case 0, 1:
				seq = append(seq, func() {
					op := h.Invoke(client, qIn{"Add", v})
					err := q.Add(v)
					h.Return(op, qOut{Err: errClass(err)})
				})
			case 2:
				b := mk()
				seq = append(seq, func() {
					op := h.Invoke(client, qIn{"BlockingAdd", v})
					b.op = op
					err := q.BlockingAdd(b.ctx, v)
					h.Return(op, qOut{Err: errClass(err)})
				})
			case 3, 4:
				seq = append(seq, func() {
					op := h.Invoke(client, qIn{"Remove", 0})
					r, ok := q.Remove()
					h.Return(op, qOut{V: r, Ok: ok})
				})
			case 5:
				b := mk()
				seq = append(seq, func() {
					op := h.Invoke(client, qIn{"Wait", 0})
					b.op = op
					r, err := q.Wait(b.ctx)
					h.Return(op, qOut{V: r, Err: errClass(err)})
				})
			case 6:
				seq = append(seq, func() {
					op := h.Invoke(client, qIn{"Len", 0})
					n := q.Len()
					h.Return(op, qOut{V: n})
				})
			case 7:
				form := simrt.Choose(2)
				seq = append(seq, func() {
					op := h.Invoke(client, qIn{"Send", v})
					var err error
					if form == 0 {
						err = d.Send(w.Ctx, v)
					} else {
						err = d.Processor()(w.Ctx, v)
					}
					h.Return(op, qOut{Err: errClass(err)})
				})
			case 8:
				b := mk()
				form := simrt.Choose(3)
				seq = append(seq, func() {
					op := h.Invoke(client, qIn{"Receive", 0})
					b.op = op
					var r int
					var err error
					switch form {
					case 0:
						r, err = d.Receive(b.ctx)
					case 1:
						r, err = d.Producer()(b.ctx)
					default:
						r, err = d.Iterator().ReadOne(b.ctx)
					}
					h.Return(op, qOut{V: r, Err: errClass(err)})
				})
			case 9:
				seq = append(seq, func() {
					op := h.Invoke(client, qIn{"DLen", 0})
					n := d.Len()
					h.Return(op, qOut{V: n})
				})
			case 10:
				w.Fault("close")
				seq = append(seq, func() {
					op := h.Invoke(client, qIn{"Close", 0})
					_ = q.Close()
					h.Return(op, qOut{})
				})
			}
		}
		simrt.Spawn(fmt.Sprintf("client%d", client), func() {
			for _, f := range seq {
				f()
			}
		})
	}
	if w.faulty() && len(calls) > 0 {
		n := simrt.Choose(3)
		for i := 0; i < n; i++ {
			b := calls[simrt.Choose(len(calls))]
			at := simrt.Choose(80)
			simrt.Spawn("fault:cancel", func() {
				simrt.WaitStep(at)
				b.canceled = true
				b.cancel()
			})
			w.Fault("cancel")
		}
	}
	if liveness && simrt.Choose(2) == 0 {
		n := 1 + simrt.Choose(2)
		for i := 0; i < n; i++ {
			next := q.Producer()
			simrt.Spawn("bystander:Queue.Producer", func() {
				for {
					if _, err := next(w.Ctx); err != nil {
						return
					}
				}
			})
		}
		w.Probe("parked-iterator-bystanders")
	}
	simrt.Quiesce()
	if liveness {
		blockedAfterCancel(w, "Queue", calls)
		if n := h.ObserveBlocked(func(op string) any { return qIn{Op: op} }, func(in any) string { return in.(qIn).Op }); n > 0 {
			w.Probe("blocked-at-quiescence")
		}
	}
	w.State(fmt.Sprintf("queue len=%d", min(q.Len(), 5)))
	// let every blocked client finish: cancel all contexts (ops that return a
	// context error are no-ops in the model).
	for _, b := range calls {
		b.cancel()
	}
	simrt.Quiesce()
	w.hist = h.Strings()
	w.After = func(res *simrt.Result) {
		if res.Budget {
			return
		}
		if liveness {
			checkBlockedAtQuiescence(w, h, init.enc(), queueStep, func(in any) bool { return strings.HasPrefix(in.(qIn).Op, blockedPrefix) }, "Queue")
			return
		}
		CheckLin(w, h, init.enc(), queueStep, "non-linearizable:Queue")
	}
}

func init() {
	Register(&Workload{Prop: "C05", Name: "queue", MaxSteps: 8000, Run: c05Run})
	Register(&Workload{Prop: "C05", Name: "queue-faults", Faulty: true, MaxSteps: 8000, Run: c05Run})
}
