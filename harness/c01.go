package harness

import (
	"fmt"

	"github.com/tychoish/fun"

	"verif/simrt"
)

// C01 — parallel iterator stages deliver every item exactly once.

var c01Kinds = []int{pkSplit, pkProcessParallel, pkParallelForEach, pkWorkerPool, pkMap, pkParallelBuffer, pkMerge, pkGenerateParallel, pkSharedChannel, pkBuffer,
	pkHFWorkerPool, pkHFOperationPool, pkSplitMerge, pkMapParallelBuffer}

func c01Run(w *W) {
	kind := c01Kinds[simrt.Choose(len(c01Kinds))]
	n := simrt.Choose(13)
	workers := 1 + simrt.Choose(4)
	buf := simrt.Choose(4)
	// each output is drained by its own task, either with ReadOne or with the
	// usual Next()/Value() loop in which other tasks run between the two calls
	nextValue := simrt.Choose(2) == 1
	if kind == pkSharedChannel {
		// there one iterator is shared by all consumers, which is what ReadOne
		// is for; Next() and Value() of a shared iterator are two calls
		nextValue = false
	}
	p := buildPipe(w.Ctx, kind, n, workers, buf)
	w.Config("%s n=%d w=%d buf=%d nextValue=%v", p.name, n, workers, buf, nextValue)
	w.State(fmt.Sprintf("%s n=%d w=%d", p.name, min(n, 3), workers))
	for _, f := range p.feeders {
		simrt.Spawn("feeder", f)
	}
	var recs []*drainRec
	var runErr error
	runState := 0
	seenAtReturn := -1
	if p.run != nil {
		simrt.Spawn("runner:"+p.name, func() {
			runState = 1
			runErr = p.run(w.Ctx)
			seenAtReturn = len(*p.seen)
			runState = 2
		})
	}
	// a Split output is channel-backed: it may itself be drained by several
	// tasks with ReadOne
	shareOutputs := kind == pkSplit && !nextValue && simrt.Choose(3) == 0
	outs := p.outs
	if shareOutputs {
		outs = append(append([]*fun.Iterator[int]{}, p.outs...), p.outs...)
		w.hist = append(w.hist, "each Split output is drained by two tasks")
		p.ordered = false // two readers: no order between what each of them got
	}
	for i, it := range outs {
		it := it
		r := &drainRec{}
		recs = append(recs, r)
		simrt.Spawn(fmt.Sprintf("consumer%d:%s", i, p.name), func() {
			r.state = 1
			if nextValue {
				for it.Next(w.Ctx) {
					simrt.Yield()
					r.vals = append(r.vals, it.Value())
					simrt.Yield()
				}
				r.err = it.Close()
				r.state = 2
				return
			}
			for {
				v, err := it.ReadOne(w.Ctx)
				if err != nil {
					r.err = err
					break
				}
				r.vals = append(r.vals, v)
				simrt.Yield()
			}
			r.state = 2
		})
	}
	simrt.Quiesce()
	var got []int
	done := true
	if p.run != nil {
		got = *p.seen
		if runState != 2 {
			done = false
		}
		_ = runErr // the error contract is C03's subject
	}
	for _, r := range recs {
		got = append(got, r.vals...)
		if r.state != 2 {
			done = false
		}
	}
	w.hist = append(w.hist, fmt.Sprintf("%s got=%v", p.name, got))
	if !done {
		// non-termination is C04's business; the safety half still applies
		w.Inconclusive("not-terminated")
		seen := map[int]int{}
		for _, v := range got {
			seen[v]++
			if seen[v] > 1 {
				w.Violate("duplicate", "duplicate:"+p.name, "%s delivered %d twice (got %v)", p.name, v, got)
			}
		}
		return
	}
	if p.run != nil && runErr == nil && seenAtReturn >= 0 && seenAtReturn < len(p.expect) {
		// callback-style constructs return "when all items have been processed"
		w.Violate("returned-before-all-processed", "returned-before-all-processed:"+p.name, "%s returned nil when %d of %d items had been handed to the processing function (the rest ran afterwards)", p.name, seenAtReturn, len(p.expect))
		return
	}
	if !sameMultiset(got, p.expect) {
		kind := "lost"
		if len(got) > len(p.expect) {
			kind = "duplicate"
		}
		w.Violate(kind, kind+":"+p.name, "%s: output multiset %v != input %v", p.name, got, p.expect)
		return
	}
	if p.ordered && !sameSeq(got, p.expect) {
		w.Violate("order", "order:"+p.name, "%s (w=%d): output order %v != input order %v", p.name, p.w, got, p.expect)
	}
}

func init() {
	Register(&Workload{Prop: "C01", Name: "fanout", MaxSteps: 20000, Run: c01Run})
}
