package harness

import (
	"context"
	"fmt"
	"strings"

	"github.com/tychoish/fun/pubsub"
	"verif/simrt"
)

// dequeStep is the sequential specification of pubsub.Deque.
func dequeStep(state string, in, out any) []string {
	s := decQ(state)
	i := in.(qIn)
	if _, pend := out.(Pending); pend {
		return same(s)
	}
	if strings.HasPrefix(i.Op, blockedPrefix) {
		// observation (C07): the operation was blocked at quiescence
		switch strings.TrimPrefix(i.Op, blockedPrefix) {
		case "WaitPushFront", "WaitPushBack", "Send":
			if !s.closed && s.capacity() <= len(s.items) {
				return same(s)
			}
		case "WaitFront", "WaitBack", "Receive":
			if !s.closed && len(s.items) == 0 {
				return same(s)
			}
		}
		return nil
	}
	o := out.(qOut)
	if o.Err == "ctx" {
		return same(s)
	}
	push := func(front bool, ns qState) qState {
		if front {
			return ns.pushFront(i.V)
		}
		return ns.pushBack(i.V)
	}
	switch i.Op {
	case "PushFront", "PushBack":
		if s.closed {
			if o.Err == "closed" {
				return same(s)
			}
			return nil
		}
		cls, ns := s.admit()
		if cls != "" {
			if o.Err == cls {
				return same(s) // "a plain push on a full deque fails without effect"
			}
			return nil
		}
		if o.Err != "" {
			return nil
		}
		return same(push(i.Op == "PushFront", ns))
	case "ForcePushFront", "ForcePushBack":
		if s.closed {
			if o.Err == "closed" {
				return same(s)
			}
			return nil
		}
		if o.Err != "" {
			return nil
		}
		front := i.Op == "ForcePushFront"
		if s.kind == 2 {
			// queue-options tracker: "at capacity" is the (moving) soft quota,
			// which is what the blocking pushes wait for as well. A Force push
			// on an open deque always succeeds: by evicting exactly one item
			// from the opposite end when the deque is at capacity, or as a
			// plain (possibly credit-funded) push. Both are accepted when both
			// are possible, so the model does not depend on which of the two
			// readings of "full" an implementation takes.
			var outs []string
			if n := len(s.items); n > 0 && n >= s.capacity() {
				ev := s
				if front {
					_, ev = ev.popBack()
				} else {
					_, ev = ev.popFront()
				}
				if cls, ns := ev.admit(); cls == "" {
					outs = append(outs, push(front, ns).enc())
				}
			}
			if cls, ns := s.admit(); cls == "" {
				if e := push(front, ns).enc(); len(outs) == 0 || outs[0] != e {
					outs = append(outs, e)
				}
			}
			return outs
		}
		if s.kind == 1 && len(s.items) >= s.hard {
			// "evicts exactly one item from the opposite end and then succeeds"
			if front {
				_, s = s.popBack()
			} else {
				_, s = s.popFront()
			}
		}
		return same(push(front, s))
	case "WaitPushFront", "WaitPushBack", "Send":
		if o.Err == "closed" {
			if s.closed {
				return same(s)
			}
			return nil
		}
		if o.Err != "" || s.closed || s.capacity() <= len(s.items) {
			return nil
		}
		cls, ns := s.admit()
		if cls != "" {
			return nil
		}
		return same(push(i.Op == "WaitPushFront", ns))
	case "PopFront", "PopBack":
		if s.closed || len(s.items) == 0 {
			if !o.Ok {
				return same(s) // "after Close ... every pop reports not-ok"
			}
			return nil
		}
		var v int
		var ns qState
		if i.Op == "PopFront" {
			v, ns = s.popFront()
		} else {
			v, ns = s.popBack()
		}
		if o.Ok && o.V == v {
			return same(ns)
		}
		return nil
	case "WaitFront", "WaitBack", "Receive":
		if o.Err == "closed" {
			if s.closed {
				return same(s)
			}
			return nil
		}
		if o.Err != "" || s.closed || len(s.items) == 0 {
			return nil
		}
		var v int
		var ns qState
		if i.Op == "WaitBack" {
			v, ns = s.popBack()
		} else {
			v, ns = s.popFront()
		}
		if o.V == v {
			return same(ns)
		}
		return nil
	case "Len":
		if o.V == len(s.items) {
			return same(s)
		}
		return nil
	case "Close":
		s.closed = true
		return same(s)
	}
	return nil
}

func c06Run(w *W) { c06RunMode(w, false) }

func c06RunMode(w *W, liveness bool) {
	h := &Hist{}
	var dq *pubsub.Deque[int]
	init := qState{}
	switch simrt.Choose(4) {
	case 0:
		dq = pubsub.NewUnlimitedDeque[int]()
		w.Config("unlimited")
	case 1, 2:
		c := 1 + simrt.Choose(3)
		dq, _ = pubsub.NewDeque[int](pubsub.DequeOptions{Capacity: c})
		init = qState{kind: 1, hard: c}
		w.Config("capacity=%d", c)
	case 3:
		hl := 2 + simrt.Choose(3)
		sq := 1 + simrt.Choose(hl)
		dq, _ = pubsub.NewDeque[int](pubsub.DequeOptions{QueueOptions: &pubsub.QueueOptions{HardLimit: hl, SoftQuota: sq}})
		init = qState{kind: 2, hard: hl, soft: sq, credit: float64(sq)}
		w.Config("quota hard=%d soft=%d", hl, sq)
	}
	d := dq.Distributor()
	nClients := 2 + simrt.Choose(3)
	next := 0
	// the deque may already hold items when the concurrent phase starts
	for k := simrt.Choose(4); k > 0; k-- {
		next++
		name, f := "PushBack", dq.PushBack
		if simrt.Choose(2) == 1 {
			name, f = "PushFront", dq.PushFront
		}
		op := h.Invoke(0, qIn{name, next})
		err := f(next)
		h.Return(op, qOut{Err: errClass(err)})
	}
	var calls []*blockingCall
	mk := func() *blockingCall {
		b := &blockingCall{}
		switch simrt.Choose(10) {
		case 0, 1:
			// an uncancellable caller: only the operation it waits for (or
			// Close) can release it
			b.ctx, b.cancel = context.Background(), func() {}
			return b
		case 2:
			// a caller whose context has already ended when it calls
			b.ctx, b.cancel = context.WithCancel(w.Ctx)
			b.cancel()
			b.canceled = true
			calls = append(calls, b)
			return b
		}
		b.ctx, b.cancel = context.WithCancel(w.Ctx)
		calls = append(calls, b)
		return b
	}
	type pushFn = func(int) error
	type popFn = func() (int, bool)
	for c := 0; c < nClients; c++ {
		client := c + 1
		nOps := 2 + simrt.Choose(5)
		var seq []func()
		for k := 0; k < nOps; k++ {
			kind := simrt.Choose(16)
			if kind == 15 && !(w.faulty() && simrt.Choose(3) == 0) {
				kind = 0
			}
			next++
			v := next
			plainPush := func(name string, f pushFn) {
				seq = append(seq, func() {
					op := h.Invoke(client, qIn{name, v})
					err := f(v)
					h.Return(op, qOut{Err: errClass(err)})
				})
			}
			plainPop := func(name string, f popFn) {
				seq = append(seq, func() {
					op := h.Invoke(client, qIn{name, 0})
					r, ok := f()
					h.Return(op, qOut{V: r, Ok: ok})
				})
			}
			waitPop := func(name string, f func(context.Context) (int, error)) {
				b := mk()
				seq = append(seq, func() {
					op := h.Invoke(client, qIn{name, 0})
					b.op = op
					r, err := f(b.ctx)
					h.Return(op, qOut{V: r, Err: errClass(err)})
				})
			}
			waitPush := func(name string, f func(context.Context, int) error) {
				b := mk()
				seq = append(seq, func() {
					op := h.Invoke(client, qIn{name, v})
					b.op = op
					err := f(b.ctx, v)
					h.Return(op, qOut{Err: errClass(err)})
				})
			}
			switch kind {
			case 0, 1:
				plainPush("PushBack", dq.PushBack)
			case 2, 3:
				plainPush("PushFront", dq.PushFront)
			case 4:
				plainPush("ForcePushFront", dq.ForcePushFront)
			case 5:
				plainPush("ForcePushBack", dq.ForcePushBack)
			case 6, 7:
				plainPop("PopFront", dq.PopFront)
			case 8:
				plainPop("PopBack", dq.PopBack)
			case 9:
				waitPop("WaitFront", dq.WaitFront)
			case 10:
				waitPop("WaitBack", dq.WaitBack)
			case 11:
				waitPush("WaitPushFront", dq.WaitPushFront)
			case 12:
				waitPush("WaitPushBack", dq.WaitPushBack)
			case 13:
				seq = append(seq, func() {
					op := h.Invoke(client, qIn{"Len", 0})
					n := dq.Len()
					h.Return(op, qOut{V: n})
				})
			case 14:
				if simrt.Choose(2) == 0 {
					waitPop("Receive", d.Receive)
				} else {
					waitPush("Send", d.Send)
				}
			case 15:
				w.Fault("close")
				seq = append(seq, func() {
					op := h.Invoke(client, qIn{"Close", 0})
					_ = dq.Close()
					h.Return(op, qOut{})
				})
			}
		}
		simrt.Spawn(fmt.Sprintf("client%d", client), func() {
			for _, f := range seq {
				f()
			}
		})
	}
	if w.faulty() && len(calls) > 0 {
		n := simrt.Choose(3)
		for i := 0; i < n; i++ {
			b := calls[simrt.Choose(len(calls))]
			at := simrt.Choose(80)
			simrt.Spawn("fault:cancel", func() {
				simrt.WaitStep(at)
				b.canceled = true
				b.cancel()
			})
			w.Fault("cancel")
		}
	}
	simrt.Quiesce()
	if liveness {
		blockedAfterCancel(w, "Deque", calls)
		if n := h.ObserveBlocked(func(op string) any { return qIn{Op: op} }, func(in any) string { return in.(qIn).Op }); n > 0 {
			w.Probe("blocked-at-quiescence")
		}
	}
	w.State(fmt.Sprintf("deque len=%d", min(dq.Len(), 5)))
	for _, b := range calls {
		b.cancel()
	}
	simrt.Quiesce()
	w.hist = h.Strings()
	w.After = func(res *simrt.Result) {
		if res.Budget {
			return
		}
		if liveness {
			checkBlockedAtQuiescence(w, h, init.enc(), dequeStep, func(in any) bool { return strings.HasPrefix(in.(qIn).Op, blockedPrefix) }, "Deque")
			return
		}
		CheckLin(w, h, init.enc(), dequeStep, "non-linearizable:Deque")
	}
}

func init() {
	Register(&Workload{Prop: "C06", Name: "deque", MaxSteps: 8000, Run: c06Run})
	Register(&Workload{Prop: "C06", Name: "deque-faults", Faulty: true, MaxSteps: 8000, Run: c06Run})
}
