package harness

import (
	"context"
	"errors"
	"fmt"

	"github.com/tychoish/fun"
	"github.com/tychoish/fun/srv"
	"verif/simrt"
)

// C10 — srv.Service lifecycle: each phase once, in order, errors complete.

const (
	poAbsent = iota
	poOK
	poError
	poPanic
)

var poNames = []string{"absent", "ok", "error", "panic"}

func c10Run(w *W) {
	h := &Hist{}
	runOut := 1 + simrt.Choose(3)
	shutOut := simrt.Choose(4)
	cleanOut := simrt.Choose(4)
	hasEH := simrt.Choose(2) == 1
	term := simrt.Choose(3) // 0 Run returns by itself, 1 Close, 2 parent cancel
	termAt := simrt.Choose(120)
	nStart := 1 + simrt.Choose(3)
	nWait := 1 + simrt.Choose(2)
	nClose := simrt.Choose(2)
	w.Config("run=%s shutdown=%s cleanup=%s eh=%v term=%s@%d starters=%d waiters=%d closers=%d", poNames[runOut], poNames[shutOut], poNames[cleanOut], hasEH,
		[]string{"self", "close", "parent-cancel"}[term], termAt, nStart, nWait, nClose)
	w.State(fmt.Sprintf("run=%s shut=%s clean=%s term=%d", poNames[runOut], poNames[shutOut], poNames[cleanOut], term))

	// (drawn after the configuration cell; most errors are plain, some wrap a
	// sentinel the library treats specially elsewhere)
	eRun, fRun := newFlavErr("run-error")
	eShut, fShut := newFlavErr("shutdown-error")
	eClean, fClean := newFlavErr("cleanup-error")
	var errRun, errShut, errClean error = eRun, eShut, eClean
	w.Out.Config += fmt.Sprintf(" errs=%s/%s/%s", fRun, fShut, fClean)
	timedWaiter := -1
	if simrt.Choose(3) == 0 {
		timedWaiter = simrt.Choose(40)
		w.Out.Config += fmt.Sprintf(" timed-waiter(Worker(), own context ends +%d)", timedWaiter)
	}
	pctx, pcancel := context.WithCancel(w.Ctx)
	defer pcancel()

	type span struct{ enter, exit int64 }
	var runs, shuts, cleans, ehs []span
	var svcCtx context.Context
	shutEarly := false
	var ehArg error
	s := &srv.Service{Name: "svc"}
	outcome := func(o int, e error) error {
		switch o {
		case poError:
			return e
		case poPanic:
			panic(e)
		}
		return nil
	}
	s.Run = func(ctx context.Context) error {
		svcCtx = ctx
		idx := len(runs)
		runs = append(runs, span{enter: h.Tick()})
		stall()
		if term != 0 {
			// wait for the service context to end
			t := simrt.Pre("harness:run-wait")
			<-ctx.Done()
			simrt.Post(t)
		}
		runs[idx].exit = h.Tick()
		return outcome(runOut, errRun)
	}
	if shutOut != poAbsent {
		s.Shutdown = func() error {
			// the service context is only visible through Run's argument: if
			// Run has not been invoked yet the clause cannot be judged here.
			if svcCtx != nil && svcCtx.Err() == nil {
				shutEarly = true
			}
			idx := len(shuts)
			shuts = append(shuts, span{enter: h.Tick()})
			stall()
			shuts[idx].exit = h.Tick()
			return outcome(shutOut, errShut)
		}
	}
	if cleanOut != poAbsent {
		s.Cleanup = func() error {
			idx := len(cleans)
			cleans = append(cleans, span{enter: h.Tick()})
			stall()
			cleans[idx].exit = h.Tick()
			return outcome(cleanOut, errClean)
		}
	}
	if hasEH {
		s.ErrorHandler.Set(func(err error) {
			ehArg = err
			ehs = append(ehs, span{enter: h.Tick(), exit: h.Tick()})
		})
	}

	type startRec struct {
		ret  int64
		err  error
		done bool
	}
	type waitRec struct {
		invoke, ret  int64
		err          error
		done         bool
		runningAfter bool
	}
	var starts []*startRec
	var waits []*waitRec
	for i := 0; i < nStart; i++ {
		sr := &startRec{}
		starts = append(starts, sr)
		// the first starter goes at once; the others at tape-chosen steps, so
		// that a Start may also find the service running or already finished
		startAt := 0
		if i > 0 {
			startAt = simrt.Choose(150)
		}
		simrt.Spawn(fmt.Sprintf("starter%d", i), func() {
			if startAt > 0 {
				simrt.WaitStep(startAt)
			}
			sr.err = s.Start(pctx)
			sr.ret = h.Tick()
			sr.done = true
			if sr.err == nil && timedWaiter >= 0 {
				// somebody waits with a deadline of his own, through the
				// service's Worker() (its own Start attempt comes after a
				// successful one, so it cannot be the one that wins); his
				// context ends while the phases are still running. What he gets
				// is his context's error; what everybody else gets from Wait
				// must not depend on his having looked.
				k := timedWaiter
				simrt.Spawn("timed-waiter", func() {
					cctx, cancel := context.WithCancel(w.Ctx)
					simrt.Spawn("timed-waiter-context-ends", func() {
						for j := 0; j < k; j++ {
							simrt.Yield()
						}
						cancel()
					})
					_ = s.Worker()(cctx)
				})
				w.Fault("timed-waiter-context-ends")
			}
			if sr.err == nil {
				for k := 0; k < nWait; k++ {
					wr := &waitRec{}
					waits = append(waits, wr)
					simrt.Spawn("waiter", func() {
						wr.invoke = h.Tick()
						wr.err = s.Wait()
						wr.runningAfter = s.Running()
						wr.ret = h.Tick()
						wr.done = true
					})
				}
			}
		})
	}
	// waiters that do not wait for a Start to return: their Wait may land
	// before, inside or after Start. Before the start it reports
	// ErrServiceNotStarted; any other outcome is a real Wait and is held to
	// the same clauses as the others.
	nEarly := simrt.Choose(3)
	var earlyWaits []*waitRec
	for i := 0; i < nEarly; i++ {
		wr := &waitRec{}
		earlyWaits = append(earlyWaits, wr)
		at := simrt.Choose(60)
		simrt.Spawn("early-waiter", func() {
			simrt.WaitStep(at)
			for try := 0; try < 3; try++ {
				wr.invoke = h.Tick()
				wr.err = s.Wait()
				wr.runningAfter = s.Running()
				wr.ret = h.Tick()
				if !errors.Is(wr.err, srv.ErrServiceNotStarted) {
					break
				}
				simrt.Yield()
			}
			wr.done = true
		})
	}
	switch term {
	case 1:
		simrt.Spawn("fault:close", func() {
			simrt.WaitStep(termAt)
			// Close is a no-op until the service runs: keep trying at each step
			for i := 0; i < 400 && !(len(runs) > 0 && runs[0].exit != 0); i++ {
				s.Close()
				simrt.Yield()
			}
		})
		w.Fault("close")
	case 2:
		simrt.Spawn("fault:parent-cancel", func() {
			simrt.WaitStep(termAt)
			pcancel()
		})
		w.Fault("parent-cancel")
	}
	for i := 0; i < nClose; i++ {
		at := simrt.Choose(150)
		simrt.Spawn("closer", func() {
			simrt.WaitStep(at)
			s.Close()
		})
	}
	simrt.Quiesce()

	sig := func(k string) string { return k }
	for _, sp := range [][]span{runs, shuts, cleans, ehs} {
		for _, x := range sp {
			w.hist = append(w.hist, fmt.Sprintf("[%d,%d]", x.enter, x.exit))
		}
		w.hist = append(w.hist, "--")
	}
	okStarts := 0
	for i, sr := range starts {
		if !sr.done {
			w.Violate("start-blocked", sig("start-blocked"), "Start call %d has not returned at quiescence", i)
			return
		}
		switch {
		case sr.err == nil:
			okStarts++
		case errors.Is(sr.err, srv.ErrServiceAlreadyStarted), errors.Is(sr.err, srv.ErrServiceReturned):
		default:
			w.Violate("start-error", sig("start-error"), "Start returned unexpected error %v", sr.err)
		}
	}
	if okStarts != 1 {
		w.Violate("start-count", sig("start-count"), "%d of %d concurrent Start calls returned nil (want exactly 1)", okStarts, nStart)
	}
	if len(runs) > 1 {
		w.Violate("run-count", sig("run-count"), "Run was invoked %d times", len(runs))
	}
	finished := len(runs) == 1 && runs[0].exit != 0
	if !finished {
		// nothing ended the service context (e.g. Close raced ahead of the start): no further clause applies
		if term == 0 {
			w.Violate("run-stuck", sig("run-stuck"), "Run has not completed at quiescence")
		} else {
			w.Inconclusive("service-not-terminated")
		}
		return
	}
	if shutOut != poAbsent {
		if len(shuts) != 1 {
			w.Violate("shutdown-count", sig("shutdown-count"), "Shutdown ran %d times (want 1)", len(shuts))
		}
		if shutEarly {
			w.Violate("shutdown-early", sig("shutdown-early"), "Shutdown was invoked while the service context was still live")
		}
	}
	if cleanOut != poAbsent {
		if len(cleans) != 1 {
			w.Violate("cleanup-count", sig("cleanup-count"), "Cleanup ran %d times (want 1)", len(cleans))
		} else {
			if cleans[0].enter < runs[0].exit {
				w.Violate("cleanup-before-run-returned", sig("cleanup-before-run-returned"), "Cleanup started at %d before Run returned at %d", cleans[0].enter, runs[0].exit)
			}
			if len(shuts) == 1 && cleans[0].enter < shuts[0].exit {
				w.Violate("cleanup-before-shutdown-returned", sig("cleanup-before-shutdown-returned"), "Cleanup started at %d before Shutdown returned at %d", cleans[0].enter, shuts[0].exit)
			}
		}
	}
	anyErr := runOut >= poError || shutOut >= poError || cleanOut >= poError
	anyPanic := runOut == poPanic || shutOut == poPanic || cleanOut == poPanic
	if hasEH {
		if len(ehs) > 1 {
			w.Violate("errorhandler-count", sig("errorhandler-count"), "ErrorHandler ran %d times", len(ehs))
		}
		if len(ehs) == 1 {
			if ehArg == nil {
				w.Violate("errorhandler-nil", sig("errorhandler-nil"), "ErrorHandler was called with a nil error")
			}
			if len(cleans) == 1 && ehs[0].enter < cleans[0].exit {
				w.Violate("errorhandler-before-cleanup", sig("errorhandler-before-cleanup"), "ErrorHandler ran at %d before Cleanup returned at %d", ehs[0].enter, cleans[0].exit)
			}
		}
	}
	lastPhase := runs[0].exit
	if len(shuts) == 1 && shuts[0].exit > lastPhase {
		lastPhase = shuts[0].exit
	}
	if len(cleans) == 1 && cleans[0].exit > lastPhase {
		lastPhase = cleans[0].exit
	}
	okStartRet := int64(0)
	for _, sr := range starts {
		if sr.err == nil {
			okStartRet = sr.ret
		}
	}
	for _, wr := range earlyWaits {
		if wr.done && errors.Is(wr.err, srv.ErrServiceNotStarted) {
			if okStartRet != 0 && wr.invoke > okStartRet {
				w.Violate("wait-not-started-after-start", sig("wait-not-started-after-start"), "a Wait invoked at %d, after Start had returned nil at %d, reported ErrServiceNotStarted", wr.invoke, okStartRet)
			}
			continue // it never saw the service started: nothing else to hold it to
		}
		waits = append(waits, wr)
	}
	for i, wr := range waits {
		if !wr.done {
			w.Violate("wait-blocked", sig("wait-blocked"), "Wait call %d has not returned at quiescence although every phase finished", i)
			continue
		}
		if wr.ret < lastPhase {
			w.Violate("wait-returned-early", sig("wait-returned-early"), "a Wait invoked at %d that did not report ErrServiceNotStarted returned at %d before the last phase finished at %d", wr.invoke, wr.ret, lastPhase)
		}
		if wr.runningAfter {
			w.Violate("running-after-wait", sig("running-after-wait"), "Running() is true after Wait returned")
		}
		check := func(o int, e error, name string) {
			if o == poError || o == poPanic {
				if !errors.Is(wr.err, e) {
					w.Violate("wait-lost-error", sig("wait-lost-error:"+name), "%s failed with %v but errors.Is(Wait(), it) is false: %v", name, e, wr.err)
				}
			}
		}
		check(runOut, errRun, "Run")
		check(shutOut, errShut, "Shutdown")
		check(cleanOut, errClean, "Cleanup")
		if anyPanic && !errors.Is(wr.err, fun.ErrRecoveredPanic) {
			w.Violate("wait-lost-panic", sig("wait-lost-panic"), "a phase panicked but Wait() does not wrap ErrRecoveredPanic: %v", wr.err)
		}
		if !anyErr && wr.err != nil {
			w.Violate("wait-spurious-error", sig("wait-spurious-error"), "no phase failed but Wait() returned %v", wr.err)
		}
	}
	if s.Running() {
		w.Violate("running-after-finish", sig("running-after-finish"), "Running() is true at quiescence after every phase finished")
	}
	if live := simrt.LiveLibTasks(); len(live) > 0 {
		w.Violate("goroutine-leak", sig("goroutine-leak:"+live[0]), "%d service goroutine(s) alive after the service finished: %v", len(live), live)
	}
}

func init() {
	Register(&Workload{Prop: "C10", Name: "lifecycle", Faulty: true, MaxSteps: 8000, Cells: []int{3, 4, 4, 2, 3}, Run: c10Run})
}
