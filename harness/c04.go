package harness

import (
	"context"
	"errors"
	"fmt"
	"io"
	"sort"
	"strings"
	"time"

	"verif/simrt"
)

// C04 — pipelines terminate: no stuck consumer, no leaked goroutine.

var c04Modes = []string{"exhaust", "close", "cancel", "close-then-cancel", "cancel-then-close", "close-twice", "deadline", "abandon-one-close-others"}

func c04Run(w *W) {
	kind := simrt.Choose(pkNumKinds)
	n := simrt.Choose(9)
	workers := 1 + simrt.Choose(3)
	buf := simrt.Choose(3)
	mode := 0
	if w.faulty() {
		mode = 1 + simrt.Choose(len(c04Modes)-1)
	}
	cctx, ccancel := context.WithCancel(w.Ctx)
	if mode == 6 {
		// the context handed to the first advance expires on the fake clock
		cctx, ccancel = context.WithTimeout(w.Ctx, time.Duration(1+simrt.Choose(30))*time.Millisecond)
		w.Fault("deadline")
	}
	// in a third of the stopped runs the input is slow rather than finite: the
	// feeder stalls after a few items, so that consumers (and the construct's
	// own goroutines) are blocked waiting for input when the stop arrives
	release := make(chan struct{})
	if mode != 0 && simrt.Choose(3) == 0 && mode != 7 {
		// (not in the abandon mode: an "abandoned" consumer that is itself
		// parked on a stalled input is not abandoned, it is still reading)
		pipeStall, pipeRelease = simrt.Choose(n+1), release
	}
	hooked := kind == pkBuffer || kind == pkParallelBuffer || kind == pkMap || kind == pkMapParallelBuffer
	if hooked && (mode == 1 || mode == 3 || mode == 5) && simrt.Choose(2) == 0 {
		// the source has been used before (advanced once, with the run's
		// long-lived context) when the construct wraps it. Only for the
		// constructs that pass a Close on to their input (Buffer,
		// ParallelBuffer, Map) and only for stops that begin with Close: an
		// iterator stays bound to the context of its first advance, so for
		// such a source cancelling the consumer's context is not "the
		// context passed to the first advance", and the other constructs make
		// no promise to close their inputs.
		pipePeek = w.Ctx
	}
	p := buildPipe(cctx, kind, n, workers, buf)
	pipeStall, pipeRelease, pipePeek = -1, nil, nil
	if p.peeked {
		w.Fault("source-advanced-before-wrapping")
	}
	if p.stalled {
		w.Fault("stalled-input")
	}
	if mode == 7 && !(kind == pkSplit && workers >= 2) {
		mode = 1 // only Split has several outputs
	}
	abandoned := -1
	if mode == 7 {
		// one output is read for a while and then simply dropped (never
		// closed); the stopper closes the others
		abandoned = simrt.Choose(workers)
		w.Fault("abandon")
	}
	if (p.run != nil || kind == pkBufferedChannel) && mode != 0 && mode != 6 {
		mode = 2 // callback-style constructs and a bare channel can only be cancelled
	}
	stopAt := simrt.Choose(120)
	w.Config("%s n=%d w=%d buf=%d mode=%s stop@%d", p.name, n, workers, buf, c04Modes[mode], stopAt)
	w.State(fmt.Sprintf("%s %s", p.name, c04Modes[mode]))
	for _, f := range p.feeders {
		simrt.Spawn("feeder", f)
	}
	runState := 0
	var runErr error
	if p.run != nil {
		simrt.Spawn("runner:"+p.name, func() {
			runState = 1
			runErr = p.run(cctx)
			runState = 2
		})
	}
	var recs []*drainRec
	for i, it := range p.outs {
		it := it
		r := &drainRec{limit: -1}
		if mode != 0 {
			r.limit = simrt.Choose(n + 2)
		}
		recs = append(recs, r)
		simrt.Spawn(fmt.Sprintf("consumer%d:%s", i, p.name), func() {
			r.task = simrt.Self()
			r.state = 1
			for r.limit < 0 || len(r.vals) < r.limit {
				v, err := it.ReadOne(cctx)
				if err != nil {
					r.err = err
					break
				}
				r.vals = append(r.vals, v)
			}
			r.state = 2
		})
	}
	stopState := 0
	if mode == 6 {
		stopState = 2 // nothing to do: the deadline is the stop
	}
	if mode != 0 && mode != 6 {
		simrt.Spawn("stopper", func() {
			simrt.WaitStep(stopAt)
			stopState = 1
			closeAll := func() {
				seen := map[any]bool{}
				for i, it := range p.outs {
					if i == abandoned {
						continue
					}
					if !seen[it] {
						seen[it] = true
						_ = it.Close()
					}
				}
			}
			switch mode {
			case 1:
				closeAll()
				w.Fault("close")
			case 2:
				ccancel()
				w.Fault("cancel")
			case 3:
				closeAll()
				ccancel()
				w.Fault("close")
				w.Fault("cancel")
			case 4:
				ccancel()
				closeAll()
				w.Fault("close")
				w.Fault("cancel")
			case 5:
				closeAll()
				closeAll()
				w.Fault("close")
				w.Fault("double-close")
			case 7:
				closeAll()
				w.Fault("close")
			}
			stopState = 2
		})
	}
	simrt.Quiesce()
	sig := func(kind string) string { return kind + ":" + p.name + ":" + c04Modes[mode] }
	if mode != 0 && stopState != 2 {
		w.Violate("close-blocked", sig("close-blocked"), "%s: the stop action (%s) itself is blocked at quiescence", p.name, c04Modes[mode])
	}
	if p.run != nil && runState != 2 {
		w.Violate("worker-stuck", sig("worker-stuck"), "%s: the worker has not returned at quiescence (mode %s, err so far %v)", p.name, c04Modes[mode], runErr)
	}
	eofs := 0
	for i, r := range recs {
		if r.state != 2 && simrt.SiteOf(r.task) == "exit" {
			continue // panicked: reported as a panic
		}
		if r.state != 2 {
			w.Violate("consumer-stuck", sig("consumer-stuck")+"@"+simrt.SiteOf(r.task), "%s: consumer %d is blocked in ReadOne at %s at quiescence (mode %s, read %d of limit %d)", p.name, i, simrt.SiteOf(r.task), c04Modes[mode], len(r.vals), r.limit)
			continue
		}
		if errors.Is(r.err, io.EOF) {
			eofs++
		}
	}
	if mode == 0 && len(recs) > 0 && len(w.Out.Violations) == 0 {
		shared := kind == pkSharedChannel
		if (shared && eofs == 0) || (!shared && eofs != len(recs)) {
			var errs []string
			for _, r := range recs {
				errs = append(errs, fmt.Sprint(r.err))
			}
			w.Violate("no-eof", sig("no-eof"), "%s: finite input did not end in io.EOF for every consumer: %v", p.name, errs)
		}
	}
	if live := simrt.LiveLibTasks(); len(live) > 0 && mode == 7 {
		// Split starts its reader goroutine under the context of whichever
		// output is advanced first; which case this is decides the signature
		first := false
		for _, id := range simrt.LiveLibTaskIDs() {
			if recs[abandoned].task != "" && strings.HasPrefix(id, recs[abandoned].task+".") {
				first = true
			}
		}
		sort.Strings(live)
		detail := "abandoned-output-was-not-first-advanced"
		if first {
			detail = "abandoned-output-was-first-advanced"
		}
		w.Violate("goroutine-leak", sig("goroutine-leak")+":"+detail+":"+live[0], "%s: %d library goroutine(s) still alive after one output was abandoned (read %d items, never closed) and the others were closed (%s): %s", p.name, len(live), len(recs[abandoned].vals), detail, strings.Join(live, ", "))
	} else if len(live) > 0 {
		sort.Strings(live)
		w.Violate("goroutine-leak", sig("goroutine-leak")+":"+live[0], "%s: %d library goroutine(s) still alive after the consumer is done (mode %s): %s", p.name, len(live), c04Modes[mode], strings.Join(live, ", "))
	}
	// release harness feeders so that the run's own tasks do not linger
	ccancel()
	hclose(release)
}

func init() {
	Register(&Workload{Prop: "C04", Name: "exhaust", MaxSteps: 20000, Cells: []int{pkNumKinds, 9, 3, 3}, Run: c04Run})
	Register(&Workload{Prop: "C04", Name: "stop", Faulty: true, MaxSteps: 20000, Cells: []int{pkNumKinds, 9, 3, 3, len(c04Modes) - 1}, Run: c04Run})
	Register(&Workload{Prop: "C04", Name: "stop-clockjump", Faulty: true, MaxSteps: 20000, ClockJump: 30, Run: c04Run})
}
