//go:build race

package harness

func raceBuild() bool { return true }
