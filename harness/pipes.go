package harness

import (
	"context"
	"fmt"
	"io"
	"sync/atomic"

	"github.com/tychoish/fun"
	"github.com/tychoish/fun/adt"
	"github.com/tychoish/fun/dt"
	"github.com/tychoish/fun/itertool"
	"verif/simrt"
)

// pipe is one pipeline construct under test (shared by C01, C03, C04).
type pipe struct {
	name        string
	outs        []*fun.Iterator[int] // output iterators, each consumed by its own task
	run         fun.Worker           // callback-style constructs: a worker to run
	seen        *[]int               // values handed to the user callback (callback-style)
	ordered     bool                 // output order must equal input order
	expect      []int                // expected output multiset / sequence
	feeders     []func()             // feeder tasks (channel sources)
	inputs      []*fun.Iterator[int] // upstream iterators (closed by nobody but the construct)
	w           int
	stalled     bool // a source stalls (C04 stop modes)
	stagedInput bool // in peek mode: the source is wrapped in a running Buffer stage
	peeked      bool // the sources were advanced once before being wrapped
}

// stall lets the scheduler interleave here, one to three times.
func stall() {
	n := 1 + simrt.Choose(3)
	for i := 0; i < n; i++ {
		simrt.Yield()
	}
}

// pipeStall, when >= 0, makes channel-fed sources stall: the feeder delivers
// that many items and then never sends again (nor closes) until pipeRelease
// is closed. Set by C04's stop modes only: a consumer is then blocked inside
// ReadOne, on an input that is merely slow, when the stop arrives.
var (
	pipeStall   = -1
	pipeRelease chan struct{}
	// pipePeek, when set, is a long-lived context with which every source is
	// advanced once before the construct under test wraps it (C04): an
	// iterator is bound to the context of its first advance, so afterwards
	// only a Close of that source - which a downstream Close has to pass on -
	// can release a goroutine that is parked reading from it.
	pipePeek context.Context
)

// source builds an iterator over items from a tape-chosen kind of source.
func source(p *pipe, items []int) *fun.Iterator[int] {
	it := source0(p, items)
	if pipePeek != nil {
		for _, f := range p.feeders {
			simrt.Spawn("feeder", f)
		}
		p.feeders = nil
		if simrt.Choose(2) == 1 {
			// the input is itself a running stage of the library (its
			// goroutine is started by the peek, under the long-lived context,
			// and holds prefetched items): closing the construct under test,
			// even before its first advance, has to wind that stage up too
			it = it.Buffer(1 + simrt.Choose(2))
			p.stagedInput = true
		}
		_, _ = it.ReadOne(pipePeek)
		p.peeked = true
	}
	return it
}

func source0(p *pipe, items []int) *fun.Iterator[int] {
	if pipeStall >= 0 {
		stallAt, release := pipeStall, pipeRelease
		if pipePeek != nil && stallAt == 0 && len(items) > 0 {
			stallAt = 1 // the peek needs one item
		}
		ch := make(chan int)
		p.feeders = append(p.feeders, func() {
			for k, v := range items {
				if k == stallAt {
					hrecv(release)
					return
				}
				hsend(ch, v)
			}
			if len(items) == 0 && pipePeek != nil {
				hclose(ch) // nothing to peek at: the source simply ends
				return
			}
			hrecv(release)
		})
		p.stalled = true
		return fun.ChannelIterator(ch)
	}
	switch simrt.Choose(4) {
	case 3:
		// an ordinary generator closure: correct with one caller at a time (it
		// reads its cursor, takes its time, then advances it), which is all an
		// input iterator promises - serialising access to it is the construct's
		// business
		cursor := 0
		return fun.Generator(func(ctx context.Context) (int, error) {
			i := cursor
			simrt.Yield()
			if i >= len(items) {
				return 0, io.EOF
			}
			cursor = i + 1
			return items[i], nil
		})
	case 0:
		return fun.SliceIterator(append([]int{}, items...))
	case 1:
		ch := make(chan int)
		p.feeders = append(p.feeders, func() {
			for _, v := range items {
				hsend(ch, v)
			}
			hclose(ch)
		})
		return fun.ChannelIterator(ch)
	default:
		var idx atomic.Int64
		return fun.Generator(func(ctx context.Context) (int, error) {
			i := int(idx.Add(1)) - 1
			if i >= len(items) {
				return 0, io.EOF
			}
			return items[i], nil
		})
	}
}

const (
	pkSplit = iota
	pkProcessParallel
	pkParallelForEach
	pkWorkerPool
	pkMap
	pkParallelBuffer
	pkMerge
	pkGenerateParallel
	pkSharedChannel
	pkBuffer
	pkChain
	pkMergeSlices
	pkMergeSliceIterators
	pkBufferedChannel
	pkDtMap
	pkAdtMap
	pkHFWorkerPool
	pkHFOperationPool
	pkSplitMerge
	pkMapParallelBuffer
	pkNumKinds
)

var pipeNames = []string{"Split", "ProcessParallel", "ParallelForEach", "itertool.Worker", "Map", "ParallelBuffer", "MergeIterators",
	"GenerateParallel", "SharedChannelIterator", "Buffer", "Chain", "MergeSlices", "MergeSliceIterators", "BufferedChannel", "dt.Map", "adt.Map",
	"HF.WorkerPool", "HF.OperationPool", "Split+MergeIterators", "Map+ParallelBuffer"}

func opts(w int, extra ...fun.OptionProvider[*fun.WorkerGroupConf]) []fun.OptionProvider[*fun.WorkerGroupConf] {
	return append([]fun.OptionProvider[*fun.WorkerGroupConf]{fun.WorkerGroupConfNumWorkers(w)}, extra...)
}

// buildPipe constructs pipeline kind over the items 0..n-1.
func buildPipe(ctx context.Context, kind, n, w, buf int) *pipe {
	items := make([]int, n)
	for i := range items {
		items[i] = i
	}
	p := &pipe{name: pipeNames[kind], w: w, expect: items}
	seen := []int{}
	p.seen = &seen
	record := func(v int) { stall(); seen = append(seen, v) }
	switch kind {
	case pkSplit:
		src := source(p, items)
		p.outs = src.Split(w)
		p.ordered = w == 1
	case pkProcessParallel:
		src := source(p, items)
		p.run = src.ProcessParallel(func(ctx context.Context, v int) error { record(v); return nil }, opts(w)...)
		p.ordered = w == 1
	case pkParallelForEach:
		src := source(p, items)
		p.run = func(ctx context.Context) error {
			return itertool.ParallelForEach(ctx, src, func(ctx context.Context, v int) error { record(v); return nil }, opts(w)...)
		}
		p.ordered = w == 1
	case pkWorkerPool:
		ops := make([]fun.Worker, n)
		for i := range ops {
			i := i
			ops[i] = func(context.Context) error { record(i); return nil }
		}
		src := fun.SliceIterator(ops)
		p.run = func(ctx context.Context) error { return itertool.Worker(ctx, src, opts(w)...) }
		p.ordered = w == 1
	case pkMap:
		src := source(p, items)
		out := fun.Map(src, func(ctx context.Context, v int) (int, error) { stall(); return v + 1000, nil }, opts(w)...)
		p.outs = []*fun.Iterator[int]{out}
		p.expect = make([]int, n)
		for i := range items {
			p.expect[i] = i + 1000
		}
		p.ordered = w == 1
	case pkParallelBuffer:
		src := source(p, items)
		p.outs = []*fun.Iterator[int]{src.ParallelBuffer(w)}
		p.ordered = w == 1
	case pkMerge:
		k := w
		parts := make([][]int, k)
		// uneven on purpose: any of the sources, the first ones included, may
		// be empty (its reader is done before the next one is even launched)
		uneven := simrt.Choose(2) == 1
		for i, v := range items {
			at := i % k
			if uneven {
				at = simrt.Choose(k)
			}
			parts[at] = append(parts[at], v)
		}
		var srcs []*fun.Iterator[int]
		for _, part := range parts {
			srcs = append(srcs, source(p, part))
		}
		p.inputs = srcs
		p.outs = []*fun.Iterator[int]{fun.MergeIterators(srcs...)}
		p.ordered = k == 1
	case pkGenerateParallel:
		var idx atomic.Int64
		gen := fun.Producer[int](func(ctx context.Context) (int, error) {
			i := int(idx.Add(1)) - 1
			if i >= n {
				return 0, io.EOF
			}
			stall()
			return i, nil
		})
		p.outs = []*fun.Iterator[int]{gen.GenerateParallel(opts(w)...)}
	case pkSharedChannel:
		ch := make(chan int, buf)
		p.feeders = append(p.feeders, func() {
			for _, v := range items {
				hsend(ch, v)
			}
			hclose(ch)
		})
		it := fun.ChannelIterator(ch)
		for i := 0; i < w; i++ {
			p.outs = append(p.outs, it) // the same iterator, read concurrently with ReadOne
		}
		p.ordered = w == 1
	case pkBuffer:
		src := source(p, items)
		p.outs = []*fun.Iterator[int]{src.Buffer(buf)}
		p.ordered = true
	case pkChain:
		k := w
		var srcs []*fun.Iterator[int]
		per := (n + k - 1) / k
		for i := 0; i < k; i++ {
			lo, hi := i*per, (i+1)*per
			if lo > n {
				lo = n
			}
			if hi > n {
				hi = n
			}
			srcs = append(srcs, source(p, items[lo:hi]))
		}
		p.outs = []*fun.Iterator[int]{itertool.Chain(srcs...)}
		p.ordered = true
	case pkMergeSlices:
		k := w
		per := (n + k - 1) / k
		var sls [][]int
		for i := 0; i < k; i++ {
			lo, hi := i*per, (i+1)*per
			if lo > n {
				lo = n
			}
			if hi > n {
				hi = n
			}
			sls = append(sls, append([]int{}, items[lo:hi]...))
		}
		p.outs = []*fun.Iterator[int]{itertool.MergeSlices(sls...)}
		p.ordered = true
	case pkMergeSliceIterators:
		k := w
		per := (n + k - 1) / k
		var sls [][]int
		for i := 0; i < k; i++ {
			lo, hi := i*per, (i+1)*per
			if lo > n {
				lo = n
			}
			if hi > n {
				hi = n
			}
			sls = append(sls, append([]int{}, items[lo:hi]...))
		}
		p.outs = []*fun.Iterator[int]{itertool.MergeSliceIterators(fun.SliceIterator(sls))}
		p.ordered = true
	case pkBufferedChannel:
		src := source(p, items)
		ch := src.BufferedChannel(ctx, buf)
		p.outs = []*fun.Iterator[int]{fun.ChannelIterator(ch)}
		p.ordered = true
	case pkDtMap:
		m := dt.Map[int, int]{}
		for _, v := range items {
			m[v] = v
		}
		p.outs = []*fun.Iterator[int]{m.Keys()}
	case pkAdtMap:
		m := &adt.Map[int, int]{}
		for _, v := range items {
			m.Store(v, v)
		}
		p.outs = []*fun.Iterator[int]{m.Keys()}
	case pkHFWorkerPool, pkHFOperationPool:
		// the functions may be instant and the input slow (a generator that
		// yields between items): the pool must still cover every item
		instant := simrt.Choose(2) == 1
		slow := simrt.Choose(2) == 1
		rec := record
		if instant {
			rec = func(v int) { seen = append(seen, v) }
		}
		next := 0
		gate := func() bool {
			if next >= n {
				return false
			}
			if slow {
				stall()
			}
			next++
			return true
		}
		if kind == pkHFWorkerPool {
			src := fun.Generator(func(context.Context) (fun.Worker, error) {
				if !gate() {
					return nil, io.EOF
				}
				i := next - 1
				return func(context.Context) error { rec(i); return nil }, nil
			})
			p.run = fun.HF.WorkerPool(src)
		} else {
			src := fun.Generator(func(context.Context) (fun.Operation, error) {
				if !gate() {
					return nil, io.EOF
				}
				i := next - 1
				return func(context.Context) { rec(i) }, nil
			})
			pool := fun.HF.OperationPool(src)
			p.run = func(ctx context.Context) error { pool(ctx); return nil }
		}
	case pkSplitMerge:
		// fan out and back in: every item crosses two hand-off points
		src := source(p, items)
		p.outs = []*fun.Iterator[int]{fun.MergeIterators(src.Split(w)...)}
	case pkMapParallelBuffer:
		src := source(p, items)
		out := fun.Map(src.ParallelBuffer(buf+1), func(ctx context.Context, v int) (int, error) { stall(); return v + 1000, nil }, opts(w)...)
		p.outs = []*fun.Iterator[int]{out}
		p.expect = make([]int, n)
		for i := range items {
			p.expect[i] = i + 1000
		}
	default:
		panic(fmt.Sprint("unknown pipe kind ", kind))
	}
	return p
}

// consumer state of one output iterator.
type drainRec struct {
	vals  []int
	state int // 0 not started, 1 running, 2 returned
	err   error
	task  string
	limit int // stop (without closing) after this many items; <0 = until error
}

func sameMultiset(a, b []int) bool {
	if len(a) != len(b) {
		return false
	}
	m := map[int]int{}
	for _, v := range a {
		m[v]++
	}
	for _, v := range b {
		m[v]--
	}
	for _, c := range m {
		if c != 0 {
			return false
		}
	}
	return true
}

func sameSeq(a, b []int) bool {
	if len(a) != len(b) {
		return false
	}
	for i := range a {
		if a[i] != b[i] {
			return false
		}
	}
	return true
}
