#!/bin/bash
# usage: mut.sh <file-in-repo> <python-regex-old> <new> <prop> [runs]   -- development aid: apply a one-line mutation, run the check, revert
set -u
F=/repo/$1; OLD=$2; NEW=$3; PROP=$4; RUNS=${5:-4000}
cp $F /var/tmp/mut-backup.$$ 
python3 - "$F" "$OLD" "$NEW" <<'PY'
import sys,re
f,old,new=sys.argv[1:4]
s=open(f).read()
n=s.count(old)
if n<1: print("MUTATION PATTERN NOT FOUND"); sys.exit(3)
s=s.replace(old,new,1)
open(f,'w').write(s)
PY
rc=$?
if [ $rc -eq 0 ]; then (cd /verif && ./check $PROP --runs $RUNS 2>&1 | grep -v "^  violation" | tail -4); fi
cp /var/tmp/mut-backup.$$ $F; rm -f /var/tmp/mut-backup.$$
(cd /repo && git status --short | head -3)
