#!/bin/bash
# usage: import_seed.sh <wt-dir> <name> <pkgdir> <demo-run-regex> [race]
# copies a sub-agent's seeded change into /verif/seeded/<name>/ and verifies it in a fresh scratch worktree:
# demo passes without the patch, fails with it, the package's existing tests pass with it.
set -u
export GOFLAGS=-mod=mod GOPROXY=off GOSUMDB=off GOTOOLCHAIN=local
WT=$1; NAME=$2; PKG=$3; RX=$4; RACE=${5:-}
D=/verif/seeded/$NAME; mkdir -p $D
cp $WT/patch.diff $D/patch.diff
DEMO=$(cd $WT && git status --short | grep zz_demo_test.go | awk '{print $2}' | head -1)
cp $WT/$DEMO $D/zz_demo_test.go
cp $WT/NOTES.md $D/NOTES.md 2>/dev/null
V=/tmp/verify-$NAME
git -C /repo worktree add -q $V HEAD || exit 2
cp $D/zz_demo_test.go $V/$DEMO
FLAGS="-vet=off -count=1"; [ -n "$RACE" ] && FLAGS="$FLAGS -race"
echo "--- demo WITHOUT patch (expect ok)"; (cd $V && go test $FLAGS -run "$RX" ./$PKG/ 2>&1 | tail -3); A=$?
git -C $V apply $D/patch.diff || { echo "patch does not apply"; }
echo "--- build + existing tests WITH patch (expect ok)"; (cd $V && go build ./... && mv $DEMO /tmp/demo-hold-$NAME.go && go test -vet=off -count=1 ./$PKG/ 2>&1 | tail -3; mv /tmp/demo-hold-$NAME.go $DEMO)
echo "--- demo WITH patch (expect FAIL)"; (cd $V && go test $FLAGS -run "$RX" ./$PKG/ 2>&1 | grep -v "^=== " | tail -6)
git -C /repo worktree remove --force $V
echo "demo_file=$DEMO"
