#!/usr/bin/env python3
"""Regenerates section 9 of DESIGN.md (the seeded-change table) from seeded/*/meta.json."""
import json, os
V = os.path.dirname(os.path.abspath(__file__))
rows = []
WAVES = ['1','2','3','4','5','6','7','8','9','10','11']
for d in sorted(os.listdir(os.path.join(V, 'seeded'))):
    m = json.load(open(os.path.join(V, 'seeded', d, 'meta.json')))
    import re as _re
    wave = _re.search(r'\(wave (\d+)', m['origin']).group(1)
    v = m['verdicts']
    main = v.get(m['breaks_property'], '')
    if 'superseded' in m:
        main += ' *(superseded by fix 56197e4: see meta.json)*'
    rows.append((wave, d, m['breaks_property'], main.startswith('MISSED'), main, {k: x for k, x in v.items() if k != m['breaks_property']}))
left = [r[1] for r in rows if 'left so' in r[4]]
per = {w: (sum(1 for r in rows if r[0] == w), sum(1 for r in rows if r[0] == w and r[3])) for w in WAVES}
total = len(rows); missed = sum(1 for r in rows if r[3])
out = []
out.append('''## 9. Seeded changes written by independent sub-agents

Eleven waves of fresh sub-agents, each given only the text of one property (from
wave 3 on additionally a one-line hint naming clauses of that same statement
to aim at, different per wave; in waves 6 and 7 the whole property record and
one assigned mechanism from its anchors to break, a different one per wave; in
wave 8 the property record and the instruction to hide the break in an
uncommon corner of the quantified space - a size, an option value, a kind of
value, a repeated call; in wave 9 the instruction that the break must need a
fault landing at one particular point of an operation, or a multi-step history
on one object; in waves 10 and 11 that it must only show on a
second cycle of the same object) and a scratch worktree of `/repo`, produced one
change each that breaks the property, compiles and passes the existing tests,
together with a demonstration test. Each was kept only after `import_seed.sh`
had confirmed in a fresh worktree: demonstration passes without the patch,
fails with it, package tests pass with it. `seeded/<name>/` holds
`patch.diff`, the demonstration, the author's `NOTES.md` and `meta.json` (what
it needs in order to manifest, what was run, the verdict of every check run
against it). `seedcheck.sh <name> <PROP>...` re-runs one verdict,
`seedall.sh` all of them.

Score: %s = %d changes. %d were reported by the quick tier of the owning
property's check as it stood when the change arrived; %d were missed (%s).
Every miss was a gap in workload or oracle rather than in schedule search and
was closed by extending the check (never by special-casing the change), with
%s; %d of the %d
are now reported by the quick tier of the owning check (`seedall.sh` re-runs
them all; three wave-3/4 changes to `ProcessParallel` are marked *superseded*
there - fix 56197e4 replaced the code they patch, two no longer apply and one
no longer changes behaviour - and a fourth was re-anchored, context lines
only). Two of the extensions found defects in the
*unmodified* library (section 6 rows 27 and 28); verifying the wave-4 imports
showed that one earlier repair had made an existing test flaky (row 14).

| wave | change | property | verdict of the owning check (quick tier) |
|---|---|---|---|''' % (' + '.join(str(per[w][0]) for w in WAVES), total, total - missed, missed,
         ', '.join('wave %s: %d' % (w, per[w][1]) for w in WAVES),
         ('%d exception%s (%s): one is a pure data race with no effect at the granularity the simulator interleaves (reported by the race build of C13 instead), the others need a reuse of an object that the owning property does not quantify over - a second Run of one Worker, a pool restarted by `srv.Daemon`, a WaitGroup shared across rounds (reported by C14) - and are explained in their rows' % (len(left), '' if len(left) == 1 else 's', ', '.join('`%s`' % d for d in left))) if left else 'no exception',
         total - len(left), total))
for wave, d, prop, m, main, others in rows:
    out.append('| %s | `%s` | %s | %s |' % (wave, d, prop, main.replace('|', '\\|')))
out.append('''
What the misses had in common, and what was changed (details in the `meta.json`
files):

* **values the harness never produced**: plain `fmt.Errorf` job errors only
  (C11, fixed by error *flavours* shared with C10); operands that are never an
  unwrapped inner layer of an aggregate, and no nil input other than the
  untyped nil (C12, twice); Force pushes never on a queue-options deque (C06);
  `Extend`/`Equal` arguments that are always throw-away sets (C18); every
  blocking call made with a cancellable context, whose end-of-call `cancel()`
  wakes all waiters as a side effect and so papers over missing signals (C07);
  no panic whose value is the very error `ExcludedErrors` lists (C03, wave 7);
  no leaf that is a non-nil error reporting `Ok()` of itself (C12, wave 7);
  and, wave 8 (corners of the option/value space): no non-positive
  `WorkerPoolSize` / `BufferSize` (C09), no `DoTimes`/`StartGroup` count below
  one (C14), no multi-error type of the caller's with nils in its own slice
  (C12), no input that is a plain one-caller-at-a-time generator closure (C01),
  no pre-advanced input that is itself a running stage (C04).
* **operations missing from the concurrent mix**: no sorts in the concurrent
  Set histories (C18); no parked iterators next to blocked producers (C07); no
  `Close` racing the adds of an iterated container (C20); no `Wait` landing
  inside `Start` (C10); pools only ever ended through their context, never by
  closing the work queue (C11); waiter functions called exactly once (C15);
  bounded broker back-ends only at capacity 2 (C09, wave 1); inputs that are
  always finite and promptly fed, so that no `ReadOne` is ever parked on its
  input when `Close` arrives (C04); no broker context with a deadline (C09);
  JSON documents without `null`, `Wrapf` templates without `%w` (C02, C12);
  pool inputs that are never slower than the functions they yield (C01); no
  `ErrCurrentOpAbort` from a Transform, no panic with a multi-error value (C02,
  C03); no source that had been advanced before it was wrapped (C04); group
  members that are always fresh (C11); work always launched with the same live
  context the waiters use (C14, C15); subscribers that never take their time
  (C08); a queue never closed before its removals had finished (C20); outputs
  drained with `ReadOne` only, never with the two-call `Next()`/`Value()` loop
  (C01, wave 7); every read of a pipeline made with the same long-lived
  context, never with a per-call context that ends while a user function is
  failing (C02, wave 7); no second `Unsubscribe` for the same channel (C08),
  no second `Synchronize()` on a set in use (C13), no Split output read by two
  tasks (C01) - wave 8; no `Subscribe` call whose own context ends in flight
  (C08), no race-driver call whose own context ends mid-call (C13) - wave 9;
  nobody looking at a service's result before its last phase (C10, wave 10:
  a timed waiter through `Service.Worker()`); fan-in sources always filled
  round-robin, so never an empty one among the first (C01, wave 11); container
  conversion stages always over a fresh container (C02, wave 11).
* **oracle narrower than the statement**: only calls *invoked after* the last
  `Limit` execution were compared with its result (C15); under removals the
  iterator was only required not to panic and to return on Close/cancel, not
  to deliver items that were never removed (C20); "free capacity" of a quota
  queue judged only at `Len()==0` (C07 - now decided by the sequential model's
  exact state: operations still blocked at quiescence become observations that
  must be consistent with every linearization); a busy loop after shutdown
  only ever exhausted the step budget, which is inconclusive - C09 now has a
  bounded-liveness clause for the phase after the faults have stopped; under
  removals a blocking container iterator was allowed to end early, and one
  parked with an unseen item was given a further Add before being judged,
  which is what un-sticks the seeded change (C20, wave 7, twice - now judged
  at quiescence as the statement words it); after Close under removals nothing
  compared what a finished iterator had yielded with what was left in the
  container (C20, wave 9).

Cross-property verdicts (a change reported by a check other than its own, or
explicitly not): ''' + '; '.join('`%s`: %s' % (d, ', '.join('%s %s' % (k, x) for k, x in o.items())) for _, d, _, _, _, o in rows if o) + '.')
p = os.path.join(V, 'DESIGN.md')
s = open(p).read()
i = s.find('## 9. Seeded changes')
if i >= 0:
    s = s[:i]
open(p, 'w').write(s.rstrip('\n') + '\n\n' + '\n'.join(out) + '\n')
print('section 9: %d changes, %d missed at first' % (total, missed))
