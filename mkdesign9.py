#!/usr/bin/env python3
"""Regenerates section 9 of DESIGN.md (the seeded-change table) from seeded/*/meta.json."""
import json, os
V = os.path.dirname(os.path.abspath(__file__))
rows = []
for d in sorted(os.listdir(os.path.join(V, 'seeded'))):
    m = json.load(open(os.path.join(V, 'seeded', d, 'meta.json')))
    wave = next(w for w in '123456' if ('wave ' + w) in m['origin'])
    v = m['verdicts']
    main = v.get(m['breaks_property'], '')
    rows.append((wave, d, m['breaks_property'], main.startswith('MISSED'), main, {k: x for k, x in v.items() if k != m['breaks_property']}))
per = {w: (sum(1 for r in rows if r[0] == w), sum(1 for r in rows if r[0] == w and r[3])) for w in '123456'}
total = len(rows); missed = sum(1 for r in rows if r[3])
out = []
out.append('''## 9. Seeded changes written by independent sub-agents

Six waves of fresh sub-agents, each given only the text of one property (from
wave 3 on additionally a one-line hint naming clauses of that same statement
to aim at, different per wave; in wave 6 the whole property record and one
assigned mechanism from its anchors to break) and a scratch worktree of `/repo`, produced one
change each that breaks the property, compiles and passes the existing tests,
together with a demonstration test. Each was kept only after `import_seed.sh`
had confirmed in a fresh worktree: demonstration passes without the patch,
fails with it, package tests pass with it. `seeded/<name>/` holds
`patch.diff`, the demonstration, the author's `NOTES.md` and `meta.json` (what
it needs in order to manifest, what was run, the verdict of every check run
against it). `seedcheck.sh <name> <PROP>...` re-runs one verdict,
`seedall.sh` all of them.

Score: %s = %d changes. %d were reported by the quick tier of the owning
property's check as it stood when the change arrived; %d were missed (%s).
Every miss was a gap in workload or oracle rather than in schedule search, was
closed by extending the check (never by special-casing the change), and all %d
are now reported by the quick tier. Two of the extensions found defects in the
*unmodified* library (section 6 rows 27 and 28); verifying the wave-4 imports
showed that one earlier repair had made an existing test flaky (row 14).

| wave | change | property | verdict of the owning check (quick tier) |
|---|---|---|---|''' % (' + '.join(str(per[w][0]) for w in '123456'), total, total - missed, missed,
         ', '.join('wave %s: %d' % (w, per[w][1]) for w in '123456'), total))
for wave, d, prop, m, main, others in rows:
    out.append('| %s | `%s` | %s | %s |' % (wave, d, prop, main.replace('|', '\\|')))
out.append('''
What the misses had in common, and what was changed (details in the `meta.json`
files):

* **values the harness never produced**: plain `fmt.Errorf` job errors only
  (C11, fixed by error *flavours* shared with C10); operands that are never an
  unwrapped inner layer of an aggregate, and no nil input other than the
  untyped nil (C12, twice); Force pushes never on a queue-options deque (C06);
  `Extend`/`Equal` arguments that are always throw-away sets (C18); every
  blocking call made with a cancellable context, whose end-of-call `cancel()`
  wakes all waiters as a side effect and so papers over missing signals (C07).
* **operations missing from the concurrent mix**: no sorts in the concurrent
  Set histories (C18); no parked iterators next to blocked producers (C07); no
  `Close` racing the adds of an iterated container (C20); no `Wait` landing
  inside `Start` (C10); pools only ever ended through their context, never by
  closing the work queue (C11); waiter functions called exactly once (C15);
  bounded broker back-ends only at capacity 2 (C09, wave 1); inputs that are
  always finite and promptly fed, so that no `ReadOne` is ever parked on its
  input when `Close` arrives (C04); no broker context with a deadline (C09);
  JSON documents without `null`, `Wrapf` templates without `%w` (C02, C12);
  pool inputs that are never slower than the functions they yield (C01); no
  `ErrCurrentOpAbort` from a Transform, no panic with a multi-error value (C02,
  C03); no source that had been advanced before it was wrapped (C04); group
  members that are always fresh (C11); work always launched with the same live
  context the waiters use (C14, C15); subscribers that never take their time
  (C08); a queue never closed before its removals had finished (C20).
* **oracle narrower than the statement**: only calls *invoked after* the last
  `Limit` execution were compared with its result (C15); under removals the
  iterator was only required not to panic and to return on Close/cancel, not
  to deliver items that were never removed (C20); "free capacity" of a quota
  queue judged only at `Len()==0` (C07 - now decided by the sequential model's
  exact state: operations still blocked at quiescence become observations that
  must be consistent with every linearization); a busy loop after shutdown
  only ever exhausted the step budget, which is inconclusive - C09 now has a
  bounded-liveness clause for the phase after the faults have stopped.

Cross-property verdicts (a change reported by a check other than its own, or
explicitly not): ''' + '; '.join('`%s`: %s' % (d, ', '.join('%s %s' % (k, x) for k, x in o.items())) for _, d, _, _, _, o in rows if o) + '.')
p = os.path.join(V, 'DESIGN.md')
s = open(p).read()
i = s.find('## 9. Seeded changes')
if i >= 0:
    s = s[:i]
open(p, 'w').write(s.rstrip('\n') + '\n\n' + '\n'.join(out) + '\n')
print('section 9: %d changes, %d missed at first' % (total, missed))
