// siminstr rewrites every synchronisation construct of a scratch copy of
// tychoish/fun into calls into verif/simrt (see DESIGN.md §1.1). It edits the
// files of the directory it is given in place; it is never run on /repo.
package main

import (
	"bytes"
	"flag"
	"fmt"
	"go/ast"
	"go/format"
	"go/token"
	"go/types"
	"os"
	"sort"
	"strconv"
	"strings"

	"golang.org/x/tools/go/ast/astutil"
	"golang.org/x/tools/go/packages"
)

var (
	dir     = flag.String("dir", "", "module directory to instrument in place")
	skipPkg = flag.String("skip", "assert,assert/check,testt,ensure,ensure/is", "package suffixes not instrumented")
	verbose = flag.Bool("v", false, "verbose")
)

type counts map[string]int

func main() {
	flag.Parse()
	if *dir == "" {
		fatal("usage: siminstr -dir <module copy>")
	}
	cfg := &packages.Config{
		Mode: packages.NeedName | packages.NeedFiles | packages.NeedCompiledGoFiles | packages.NeedSyntax |
			packages.NeedTypes | packages.NeedTypesInfo | packages.NeedImports | packages.NeedDeps | packages.NeedModule,
		Dir:   *dir,
		Tests: false,
		Env:   append(os.Environ(), "GOFLAGS=-mod=mod", "GOPROXY=off", "GOSUMDB=off"),
	}
	pkgs, err := packages.Load(cfg, "./...")
	if err != nil {
		fatal("load: %v", err)
	}
	if packages.PrintErrors(pkgs) > 0 {
		fatal("packages contain errors")
	}
	skips := map[string]bool{}
	for _, s := range strings.Split(*skipPkg, ",") {
		if s != "" {
			skips[s] = true
		}
	}
	total := counts{}
	sort.Slice(pkgs, func(i, j int) bool { return pkgs[i].PkgPath < pkgs[j].PkgPath })
	for _, p := range pkgs {
		rel := strings.TrimPrefix(strings.TrimPrefix(p.PkgPath, p.Module.Path), "/")
		if skips[rel] {
			continue
		}
		for i, f := range p.Syntax {
			r := &rewriter{pkg: p, file: f, fset: p.Fset, info: p.TypesInfo, counts: total,
				skip: map[ast.Node]bool{}, recv2: map[ast.Node]bool{}, deferred: map[ast.Node]bool{},
				ours: map[ast.Node]bool{}, ord: map[string]int{}}
			changed := r.run()
			if r.err != nil {
				fatal("%s: %v", p.Fset.Position(r.errPos), r.err)
			}
			if !changed {
				continue
			}
			// drop all comments after the package clause: the printer can
			// misplace them inside rewritten statements.
			var keep []*ast.CommentGroup
			for _, cg := range f.Comments {
				if cg.End() < f.Package {
					keep = append(keep, cg)
				}
			}
			f.Comments = keep
			stripDocs(f)
			astutil.AddImport(p.Fset, f, "verif/simrt")
			var buf bytes.Buffer
			if err := format.Node(&buf, p.Fset, f); err != nil {
				fatal("print %s: %v", p.CompiledGoFiles[i], err)
			}
			if err := os.WriteFile(p.CompiledGoFiles[i], buf.Bytes(), 0o644); err != nil {
				fatal("%v", err)
			}
		}
	}
	keys := make([]string, 0, len(total))
	for k := range total {
		keys = append(keys, k)
	}
	sort.Strings(keys)
	for _, k := range keys {
		fmt.Printf("siminstr: %-14s %d\n", k, total[k])
	}
}

func stripDocs(f *ast.File) {
	ast.Inspect(f, func(n ast.Node) bool {
		switch x := n.(type) {
		case *ast.FuncDecl:
			x.Doc = nil
		case *ast.GenDecl:
			x.Doc = nil
		case *ast.TypeSpec:
			x.Doc, x.Comment = nil, nil
		case *ast.ValueSpec:
			x.Doc, x.Comment = nil, nil
		case *ast.Field:
			x.Doc, x.Comment = nil, nil
		case *ast.ImportSpec:
			x.Doc, x.Comment = nil, nil
		}
		return true
	})
}

func fatal(f string, a ...any) {
	fmt.Fprintf(os.Stderr, "siminstr: HARNESS-ERROR cannot instrument: "+f+"\n", a...)
	os.Exit(2)
}

type rewriter struct {
	pkg      *packages.Package
	file     *ast.File
	fset     *token.FileSet
	info     *types.Info
	counts   counts
	skip     map[ast.Node]bool // receive/send nodes that belong to a select comm clause
	recv2    map[ast.Node]bool // receive expressions in a two-value context
	deferred map[ast.Node]bool // call expressions that are the operand of defer
	ours     map[ast.Node]bool // blocks produced for labelled selects
	defers   map[*ast.DeferStmt]pendingDefer
	ord      map[string]int
	fn       []string
	tmp      int
	changed  bool
	err      error
	errPos   token.Pos
}

func (r *rewriter) fail(pos token.Pos, f string, a ...any) {
	if r.err == nil {
		r.err = fmt.Errorf(f, a...)
		r.errPos = pos
	}
}

func (r *rewriter) site(kind string) ast.Expr {
	fn := "init"
	if len(r.fn) > 0 {
		fn = r.fn[len(r.fn)-1]
	}
	key := fn + ":" + kind
	r.ord[key]++
	r.counts[kind]++
	r.changed = true
	return &ast.BasicLit{Kind: token.STRING, Value: strconv.Quote(fmt.Sprintf("%s.%s:%s#%d", r.pkg.Name, fn, kind, r.ord[key]))}
}

func (r *rewriter) newTmp(prefix string) *ast.Ident {
	r.tmp++
	return ast.NewIdent(fmt.Sprintf("_%s%d", prefix, r.tmp))
}

func simrtCall(name string, args ...ast.Expr) *ast.CallExpr {
	return &ast.CallExpr{Fun: &ast.SelectorExpr{X: ast.NewIdent("simrt"), Sel: ast.NewIdent(name)}, Args: args}
}

func funcName(d *ast.FuncDecl) string {
	if d.Recv == nil || len(d.Recv.List) == 0 {
		return d.Name.Name
	}
	t := d.Recv.List[0].Type
	star := ""
	if s, ok := t.(*ast.StarExpr); ok {
		star = "*"
		t = s.X
	}
	switch x := t.(type) {
	case *ast.IndexExpr:
		t = x.X
	case *ast.IndexListExpr:
		t = x.X
	}
	name := "?"
	if id, ok := t.(*ast.Ident); ok {
		name = id.Name
	}
	return "(" + star + name + ")." + d.Name.Name
}

func (r *rewriter) run() bool {
	astutil.Apply(r.file, r.pre, r.post)
	return r.changed
}

func unparen(e ast.Expr) ast.Expr {
	for {
		p, ok := e.(*ast.ParenExpr)
		if !ok {
			return e
		}
		e = p.X
	}
}

func isRecv(e ast.Expr) bool {
	u, ok := unparen(e).(*ast.UnaryExpr)
	return ok && u.Op == token.ARROW
}

func (r *rewriter) pre(c *astutil.Cursor) bool {
	switch n := c.Node().(type) {
	case *ast.FuncDecl:
		r.fn = append(r.fn, funcName(n))
	case *ast.SelectStmt:
		for _, cl := range n.Body.List {
			cc := cl.(*ast.CommClause)
			switch s := cc.Comm.(type) {
			case *ast.SendStmt:
				r.skip[s] = true
			case *ast.ExprStmt:
				r.skip[unparen(s.X)] = true
			case *ast.AssignStmt:
				if len(s.Rhs) == 1 {
					r.skip[unparen(s.Rhs[0])] = true
				}
			}
		}
	case *ast.AssignStmt:
		if len(n.Lhs) == 2 && len(n.Rhs) == 1 && isRecv(n.Rhs[0]) {
			r.recv2[unparen(n.Rhs[0])] = true
		}
	case *ast.ValueSpec:
		if len(n.Names) == 2 && len(n.Values) == 1 && isRecv(n.Values[0]) {
			r.recv2[unparen(n.Values[0])] = true
		}
	case *ast.DeferStmt:
		r.deferred[n.Call] = true
	case *ast.IfStmt:
		r.checkSimple(n.Init)
	case *ast.ForStmt:
		r.checkSimple(n.Init)
		r.checkSimple(n.Post)
	case *ast.SwitchStmt:
		r.checkSimple(n.Init)
	case *ast.TypeSwitchStmt:
		r.checkSimple(n.Init)
	}
	return true
}

func (r *rewriter) checkSimple(s ast.Stmt) {
	if s == nil {
		return
	}
	if _, ok := s.(*ast.SendStmt); ok {
		r.fail(s.Pos(), "send statement in init/post position")
	}
}

func (r *rewriter) post(c *astutil.Cursor) bool {
	if r.err != nil {
		return false
	}
	switch n := c.Node().(type) {
	case *ast.FuncDecl:
		r.fn = r.fn[:len(r.fn)-1]
	case *ast.CallExpr:
		r.call(c, n)
	case *ast.SelectorExpr:
		r.methodValue(c, n)
	case *ast.UnaryExpr:
		if n.Op == token.ARROW && !r.skip[n] {
			if r.recv2[n] {
				c.Replace(simrtCall("Recv2", r.site("recv"), n.X))
			} else {
				c.Replace(simrtCall("Recv", r.site("recv"), n.X))
			}
		}
	case *ast.SendStmt:
		if !r.skip[n] {
			// a send on a channel that is closed while the sender is
			// blocked panics: the post-gate is deferred so that the woken
			// goroutine still parks before it runs any further.
			t := r.newTmp("t")
			lit := &ast.FuncLit{Type: &ast.FuncType{Params: &ast.FieldList{}}, Body: &ast.BlockStmt{List: []ast.Stmt{
				&ast.DeferStmt{Call: simrtCall("Post", t)},
				n,
			}}}
			c.Replace(&ast.BlockStmt{List: []ast.Stmt{
				&ast.AssignStmt{Lhs: []ast.Expr{t}, Tok: token.DEFINE, Rhs: []ast.Expr{simrtCall("Pre", r.site("send"))}},
				&ast.ExprStmt{X: &ast.CallExpr{Fun: lit}},
			}})
		}
	case *ast.GoStmt:
		r.goStmt(c, n)
	case *ast.DeferStmt:
		if pd, ok := r.defers[n]; ok {
			n.Call = pd.call
			c.Replace(&ast.BlockStmt{List: append(pd.pre, n)})
		}
	case *ast.SelectStmt:
		r.selectStmt(c, n)
	case *ast.LabeledStmt:
		if b, ok := n.Stmt.(*ast.BlockStmt); ok && r.ours[b] {
			c.Replace(b)
		}
	case *ast.RangeStmt:
		r.rangeStmt(c, n)
	}
	return r.err == nil
}

// namedOf returns package path and type name of t (through one pointer).
func namedOf(t types.Type) (string, string) {
	if t == nil {
		return "", ""
	}
	if p, ok := t.(*types.Pointer); ok {
		t = p.Elem()
	}
	if a, ok := t.(*types.Alias); ok {
		t = types.Unalias(a)
	}
	n, ok := t.(*types.Named)
	if !ok || n.Obj().Pkg() == nil {
		return "", ""
	}
	return n.Obj().Pkg().Path(), n.Obj().Name()
}

// methodOf resolves a selector to (pkgpath, recvTypeName, methodName) when it
// denotes a method.
func (r *rewriter) methodOf(sel *ast.SelectorExpr) (string, string, string, *types.Selection) {
	s := r.info.Selections[sel]
	if s == nil || (s.Kind() != types.MethodVal) {
		return "", "", "", nil
	}
	fn, ok := s.Obj().(*types.Func)
	if !ok {
		return "", "", "", nil
	}
	sig := fn.Type().(*types.Signature)
	if sig.Recv() == nil {
		return "", "", "", nil
	}
	pp, tn := namedOf(sig.Recv().Type())
	return pp, tn, fn.Name(), s
}

// recvExpr returns an expression denoting a pointer to the receiver (or the
// interface value itself).
func (r *rewriter) recvExpr(sel *ast.SelectorExpr, s *types.Selection) ast.Expr {
	x := sel.X
	if len(s.Index()) > 1 {
		// promoted through embedded fields: spell the path out
		t := s.Recv()
		for _, idx := range s.Index()[:len(s.Index())-1] {
			if p, ok := t.Underlying().(*types.Pointer); ok {
				t = p.Elem()
			}
			st, ok := t.Underlying().(*types.Struct)
			if !ok {
				r.fail(sel.Pos(), "embedded selector through non-struct")
				return x
			}
			f := st.Field(idx)
			x = &ast.SelectorExpr{X: x, Sel: ast.NewIdent(f.Name())}
			t = f.Type()
		}
		if _, ok := t.Underlying().(*types.Pointer); ok {
			return x
		}
		if _, ok := t.Underlying().(*types.Interface); ok {
			return x
		}
		return &ast.UnaryExpr{Op: token.AND, X: x}
	}
	t := s.Recv()
	if t == nil {
		r.fail(sel.Pos(), "no type for receiver")
		return x
	}
	switch t.Underlying().(type) {
	case *types.Pointer, *types.Interface:
		return x
	}
	return &ast.UnaryExpr{Op: token.AND, X: x}
}

func isAtomicType(name string) bool {
	switch name {
	case "Bool", "Int32", "Int64", "Uint32", "Uint64", "Uintptr", "Pointer", "Value":
		return true
	}
	return false
}

func simpleExpr(e ast.Expr) bool {
	switch x := e.(type) {
	case *ast.Ident, *ast.BasicLit:
		return true
	case *ast.SelectorExpr:
		return simpleExpr(x.X)
	}
	return false
}

func (r *rewriter) call(c *astutil.Cursor, n *ast.CallExpr) {
	switch fun := unparen(n.Fun).(type) {
	case *ast.SelectorExpr:
		pp, tn, mn, s := r.methodOf(fun)
		if s != nil {
			r.methodCall(c, n, fun, pp, tn, mn, s)
			return
		}
		// package-qualified function
		if id, ok := fun.X.(*ast.Ident); ok {
			if pn, ok := r.info.Uses[id].(*types.PkgName); ok {
				switch pn.Imported().Path() {
				case "sync/atomic":
					if len(n.Args) > 0 {
						n.Args[0] = simrtCall("G", r.site("atomic"), n.Args[0])
					}
				case "time":
					if fun.Sel.Name == "Sleep" {
						c.Replace(simrtCall("Sleep", r.site("sleep"), n.Args[0]))
					}
				}
			}
		}
	case *ast.Ident:
		if b, ok := r.info.Uses[fun].(*types.Builtin); ok && b.Name() == "close" && len(n.Args) == 1 {
			if r.deferred[n] {
				if d, ok := c.Parent().(*ast.DeferStmt); ok {
					t := r.newTmp("d")
					inner := &ast.CallExpr{Fun: fun, Args: []ast.Expr{simrtCall("G", r.site("close"), t)}}
					lit := &ast.FuncLit{Type: &ast.FuncType{Params: &ast.FieldList{}}, Body: &ast.BlockStmt{List: []ast.Stmt{&ast.ExprStmt{X: inner}}}}
					if r.defers == nil {
						r.defers = map[*ast.DeferStmt]pendingDefer{}
					}
					r.defers[d] = pendingDefer{d: d, pre: []ast.Stmt{&ast.AssignStmt{Lhs: []ast.Expr{t}, Tok: token.DEFINE, Rhs: []ast.Expr{n.Args[0]}}}, call: &ast.CallExpr{Fun: lit}}
					return
				}
			}
			n.Args[0] = simrtCall("G", r.site("close"), n.Args[0])
			return
		}
	}
	// call of a context.CancelFunc value
	if pp, tn := namedOf(r.info.TypeOf(n.Fun)); pp == "context" && (tn == "CancelFunc" || tn == "CancelCauseFunc") {
		if r.deferred[n] {
			r.deferG(c, n, func(recv ast.Expr) ast.Expr { return simrtCall("G", r.site("cancel"), recv) }, n.Fun, false)
			return
		}
		n.Fun = simrtCall("G", r.site("cancel"), n.Fun)
	}
}

// deferG rewrites `defer recv.M(args)` (or `defer f(args)`) whose gate must
// run when the deferred call runs: receiver and non-constant arguments are
// evaluated now, the call is wrapped in a closure.
func (r *rewriter) deferG(c *astutil.Cursor, n *ast.CallExpr, wrap func(ast.Expr) ast.Expr, recv ast.Expr, isMethod bool) {
	// find the DeferStmt: parent of n
	d, ok := c.Parent().(*ast.DeferStmt)
	if !ok {
		r.fail(n.Pos(), "deferred call not directly under defer")
		return
	}
	_ = d
	var pre []ast.Stmt
	rt := r.newTmp("d")
	pre = append(pre, &ast.AssignStmt{Lhs: []ast.Expr{rt}, Tok: token.DEFINE, Rhs: []ast.Expr{recv}})
	args := make([]ast.Expr, len(n.Args))
	for i, a := range n.Args {
		tv := r.info.Types[a]
		if tv.Value != nil || tv.IsNil() || tv.Type == nil {
			args[i] = a
			continue
		}
		at := r.newTmp("d")
		pre = append(pre, &ast.AssignStmt{Lhs: []ast.Expr{at}, Tok: token.DEFINE, Rhs: []ast.Expr{a}})
		args[i] = at
	}
	var inner *ast.CallExpr
	if isMethod {
		sel := unparen(n.Fun).(*ast.SelectorExpr)
		inner = &ast.CallExpr{Fun: &ast.SelectorExpr{X: wrap(rt), Sel: sel.Sel}, Args: args, Ellipsis: n.Ellipsis}
	} else {
		inner = &ast.CallExpr{Fun: wrap(rt), Args: args, Ellipsis: n.Ellipsis}
	}
	lit := &ast.FuncLit{Type: &ast.FuncType{Params: &ast.FieldList{}}, Body: &ast.BlockStmt{List: []ast.Stmt{&ast.ExprStmt{X: inner}}}}
	if r.defers == nil {
		r.defers = map[*ast.DeferStmt]pendingDefer{}
	}
	r.defers[d] = pendingDefer{d: d, pre: pre, call: &ast.CallExpr{Fun: lit}}
}

type pendingDefer struct {
	d    *ast.DeferStmt
	pre  []ast.Stmt
	call *ast.CallExpr
}

func (r *rewriter) methodCall(c *astutil.Cursor, n *ast.CallExpr, fun *ast.SelectorExpr, pp, tn, mn string, s *types.Selection) {
	recv := func() ast.Expr { return r.recvExpr(fun, s) }
	gstyle := func(kind string) {
		if r.deferred[n] {
			r.deferG(c, n, func(x ast.Expr) ast.Expr { return simrtCall("G", r.site(kind), x) }, recv(), true)
			return
		}
		fun.X = simrtCall("G", r.site(kind), recv())
		// the receiver is now a pointer/interface value: method call on it is fine
	}
	switch pp {
	case "sync":
		switch tn {
		case "Mutex", "RWMutex", "Locker":
			switch mn {
			case "Lock":
				c.Replace(simrtCall("Lock", recv(), r.site("lock")))
			case "Unlock":
				c.Replace(simrtCall("Unlock", recv(), r.site("unlock")))
			case "RLock":
				c.Replace(simrtCall("RLock", recv(), r.site("rlock")))
			case "RUnlock":
				c.Replace(simrtCall("RUnlock", recv(), r.site("runlock")))
			case "TryLock":
				c.Replace(simrtCall("TryLock", recv(), r.site("trylock")))
			case "TryRLock":
				c.Replace(simrtCall("TryRLock", recv(), r.site("tryrlock")))
			case "RLocker":
			default:
				r.fail(n.Pos(), "unhandled sync.%s method %s", tn, mn)
			}
		case "Cond":
			switch mn {
			case "Wait":
				c.Replace(simrtCall("CondWait", recv(), r.site("condwait")))
			case "Signal":
				c.Replace(simrtCall("CondSignal", recv(), r.site("signal")))
			case "Broadcast":
				c.Replace(simrtCall("CondBroadcast", recv(), r.site("broadcast")))
			}
		case "Once":
			if mn == "Do" {
				c.Replace(simrtCall("OnceDo", recv(), n.Args[0], r.site("once")))
			}
		case "WaitGroup":
			switch mn {
			case "Wait":
				c.Replace(simrtCall("WGWait", recv(), r.site("wgwait")))
			case "Add", "Done":
				gstyle("wg")
			default:
				r.fail(n.Pos(), "unhandled sync.WaitGroup method %s", mn)
			}
		case "Map":
			switch mn {
			case "Range":
				c.Replace(simrtCall("SMRange", recv(), n.Args[0], r.site("smrange")))
			case "Store", "LoadOrStore", "Swap":
				if simpleExpr(n.Args[0]) && !r.deferred[n] {
					fun.X = simrtCall("SM", r.site("smap"), recv(), n.Args[0])
				} else {
					gstyle("smap")
				}
			default:
				gstyle("smap")
			}
		case "Pool":
			switch mn {
			case "Get":
				c.Replace(simrtCall("PoolGet", recv(), r.site("pool")))
			case "Put":
				c.Replace(simrtCall("PoolPut", recv(), n.Args[0], r.site("pool")))
			}
		default:
			r.fail(n.Pos(), "unhandled sync type %s", tn)
		}
	case "sync/atomic":
		if isAtomicType(tn) {
			gstyle("atomic")
		}
	case "context":
		if tn == "Context" && mn == "Err" {
			gstyle("ctxerr")
		}
	}
}

func (r *rewriter) methodValue(c *astutil.Cursor, n *ast.SelectorExpr) {
	if p, ok := c.Parent().(*ast.CallExpr); ok && c.Name() == "Fun" && p.Fun == n {
		return
	}
	if _, ok := c.Parent().(*ast.ParenExpr); ok {
		// (x.M)(...) is not used in this code base; treat as method value
	}
	pp, tn, mn, s := r.methodOf(n)
	if s == nil {
		return
	}
	switch pp {
	case "sync":
		switch tn {
		case "Mutex", "RWMutex", "Locker":
			switch mn {
			case "Lock":
				c.Replace(simrtCall("LockFn", r.recvExpr(n, s), r.site("lock")))
			case "Unlock":
				c.Replace(simrtCall("UnlockFn", r.recvExpr(n, s), r.site("unlock")))
			case "RLock":
				c.Replace(simrtCall("RLockFn", r.recvExpr(n, s), r.site("rlock")))
			case "RUnlock":
				c.Replace(simrtCall("RUnlockFn", r.recvExpr(n, s), r.site("runlock")))
			default:
				r.fail(n.Pos(), "method value sync.%s.%s", tn, mn)
			}
		case "Cond", "Once", "WaitGroup", "Map":
			r.fail(n.Pos(), "method value sync.%s.%s", tn, mn)
		}
	case "sync/atomic":
		if isAtomicType(tn) {
			r.fail(n.Pos(), "method value atomic.%s.%s", tn, mn)
		}
	}
}

func (r *rewriter) isConstOrNil(e ast.Expr) bool {
	tv, ok := r.info.Types[e]
	if !ok {
		return false
	}
	return tv.Value != nil || tv.IsNil()
}

func (r *rewriter) goStmt(c *astutil.Cursor, n *ast.GoStmt) {
	call := n.Call
	var pre []ast.Stmt
	fun := call.Fun
	hoistFun := true
	switch f := unparen(fun).(type) {
	case *ast.FuncLit:
		hoistFun = false
	case *ast.Ident:
		if _, ok := r.info.Uses[f].(*types.Func); ok {
			hoistFun = false
		}
		if _, ok := r.info.Uses[f].(*types.Builtin); ok {
			hoistFun = false
		}
	case *ast.SelectorExpr:
		if id, ok := f.X.(*ast.Ident); ok {
			if _, ok := r.info.Uses[id].(*types.PkgName); ok {
				hoistFun = false
			}
		}
		if id, ok := f.X.(*ast.Ident); ok && id.Name == "simrt" {
			hoistFun = false
		}
	case *ast.CallExpr:
		// e.g. go simrt.G(site, cancel)(): already rewritten; evaluate now
	}
	if hoistFun {
		ft := r.newTmp("g")
		pre = append(pre, &ast.AssignStmt{Lhs: []ast.Expr{ft}, Tok: token.DEFINE, Rhs: []ast.Expr{fun}})
		fun = ft
	}
	args := make([]ast.Expr, len(call.Args))
	for i, a := range call.Args {
		if r.isConstOrNil(a) {
			args[i] = a
			continue
		}
		at := r.newTmp("g")
		pre = append(pre, &ast.AssignStmt{Lhs: []ast.Expr{at}, Tok: token.DEFINE, Rhs: []ast.Expr{a}})
		args[i] = at
	}
	var body ast.Expr
	if lit, ok := unparen(fun).(*ast.FuncLit); ok && len(args) == 0 {
		body = lit
	} else {
		inner := &ast.CallExpr{Fun: fun, Args: args, Ellipsis: call.Ellipsis}
		body = &ast.FuncLit{Type: &ast.FuncType{Params: &ast.FieldList{}}, Body: &ast.BlockStmt{List: []ast.Stmt{&ast.ExprStmt{X: inner}}}}
	}
	st := &ast.ExprStmt{X: simrtCall("Go", r.site("go"), body)}
	if len(pre) == 0 {
		c.Replace(st)
		return
	}
	c.Replace(&ast.BlockStmt{List: append(pre, st)})
}

func (r *rewriter) rangeStmt(c *astutil.Cursor, n *ast.RangeStmt) {
	t := r.info.TypeOf(n.X)
	if t == nil {
		return
	}
	u := t.Underlying()
	if tp, ok := t.(*types.TypeParam); ok {
		if ct := coreType(tp); ct != nil {
			u = ct
		}
	}
	switch u.(type) {
	case *types.Chan:
		rc := r.newTmp("rc")
		okv := r.newTmp("ok")
		var lhs ast.Expr = ast.NewIdent("_")
		tok := token.DEFINE
		if n.Key != nil {
			lhs = n.Key
			if n.Tok == token.ASSIGN {
				tok = token.ASSIGN
			}
		}
		var stmts []ast.Stmt
		if tok == token.ASSIGN {
			stmts = append(stmts, &ast.DeclStmt{Decl: &ast.GenDecl{Tok: token.VAR, Specs: []ast.Spec{&ast.ValueSpec{Names: []*ast.Ident{okv}, Type: ast.NewIdent("bool")}}}})
		}
		stmts = append(stmts,
			&ast.AssignStmt{Lhs: []ast.Expr{lhs, okv}, Tok: tok, Rhs: []ast.Expr{simrtCall("Recv2", r.site("recv"), rc)}},
			&ast.IfStmt{Cond: &ast.UnaryExpr{Op: token.NOT, X: okv}, Body: &ast.BlockStmt{List: []ast.Stmt{&ast.BranchStmt{Tok: token.BREAK}}}},
		)
		stmts = append(stmts, n.Body.List...)
		c.Replace(&ast.ForStmt{
			Init: &ast.AssignStmt{Lhs: []ast.Expr{rc}, Tok: token.DEFINE, Rhs: []ast.Expr{n.X}},
			Body: &ast.BlockStmt{List: stmts},
		})
	case *types.Map:
		blank := func(e ast.Expr) bool {
			if e == nil {
				return true
			}
			id, ok := e.(*ast.Ident)
			return ok && id.Name == "_"
		}
		r.site("maprange")
		ord := simrtCall("MapOrder", n.X)
		if blank(n.Key) && blank(n.Value) {
			n.X = ord
			n.Key, n.Value = nil, nil
			return
		}
		e := r.newTmp("e")
		var lhs, rhs []ast.Expr
		if !blank(n.Key) {
			lhs = append(lhs, n.Key)
			rhs = append(rhs, &ast.SelectorExpr{X: e, Sel: ast.NewIdent("K")})
		}
		if !blank(n.Value) {
			lhs = append(lhs, n.Value)
			rhs = append(rhs, &ast.SelectorExpr{X: e, Sel: ast.NewIdent("V")})
		}
		as := &ast.AssignStmt{Lhs: lhs, Tok: n.Tok, Rhs: rhs}
		n.Body.List = append([]ast.Stmt{as}, n.Body.List...)
		n.Key = ast.NewIdent("_")
		n.Value = e
		n.Tok = token.DEFINE
		n.X = ord
	}
}

func coreType(tp *types.TypeParam) types.Type {
	iface, ok := tp.Constraint().Underlying().(*types.Interface)
	if !ok {
		return nil
	}
	var out types.Type
	for i := 0; i < iface.NumEmbeddeds(); i++ {
		if u, ok := iface.EmbeddedType(i).(*types.Union); ok && u.Len() == 1 {
			out = u.Term(0).Type().Underlying()
		}
	}
	return out
}

func (r *rewriter) selectStmt(c *astutil.Cursor, n *ast.SelectStmt) {
	k := r.newTmp("k")
	sel := r.newTmp("sel")
	label := r.newTmp("probe")
	nCases := 0
	hasDefault := false
	for _, cl := range n.Body.List {
		if cl.(*ast.CommClause).Comm == nil {
			hasDefault = true
		} else {
			nCases++
		}
	}
	site := r.site("select")
	if nCases == 0 && !hasDefault {
		// select {}: blocks forever
		c.Replace(&ast.BlockStmt{List: []ast.Stmt{&ast.ExprStmt{X: simrtCall("Pre", site)}, n}})
		return
	}
	var prelude []ast.Stmt
	var probe, block []ast.Stmt // comm clauses
	var bodies []ast.Stmt       // case clauses of the final switch
	idx := 0
	setK := func(i int) ast.Stmt {
		return &ast.AssignStmt{Lhs: []ast.Expr{k}, Tok: token.ASSIGN, Rhs: []ast.Expr{&ast.BasicLit{Kind: token.INT, Value: strconv.Itoa(i)}}}
	}
	lit := func(i int) ast.Expr { return &ast.BasicLit{Kind: token.INT, Value: strconv.Itoa(i)} }
	for _, cl := range n.Body.List {
		cc := cl.(*ast.CommClause)
		if cc.Comm == nil {
			bodies = append(bodies, &ast.CaseClause{List: nil, Body: cc.Body})
			continue
		}
		i := idx
		idx++
		ch := r.newTmp("c")
		var body []ast.Stmt
		switch s := cc.Comm.(type) {
		case *ast.SendStmt:
			prelude = append(prelude, &ast.AssignStmt{Lhs: []ast.Expr{ch}, Tok: token.DEFINE, Rhs: []ast.Expr{s.Chan}})
			var val ast.Expr = s.Value
			if !r.isConstOrNil(s.Value) {
				v := r.newTmp("v")
				// the hoisted value must have the channel's element type
				prelude = append(prelude,
					&ast.AssignStmt{Lhs: []ast.Expr{v}, Tok: token.DEFINE, Rhs: []ast.Expr{simrtCall("ZeroS", ch)}},
					&ast.AssignStmt{Lhs: []ast.Expr{v}, Tok: token.ASSIGN, Rhs: []ast.Expr{s.Value}})
				val = v
			}
			probe = append(probe, &ast.CommClause{Comm: &ast.SendStmt{Chan: simrtCall("S", sel, lit(i), ch), Value: val}, Body: []ast.Stmt{setK(i)}})
			block = append(block, &ast.CommClause{Comm: &ast.SendStmt{Chan: ch, Value: val}, Body: []ast.Stmt{setK(i)}})
		case *ast.ExprStmt:
			u := unparen(s.X).(*ast.UnaryExpr)
			prelude = append(prelude, &ast.AssignStmt{Lhs: []ast.Expr{ch}, Tok: token.DEFINE, Rhs: []ast.Expr{u.X}})
			probe = append(probe, &ast.CommClause{Comm: &ast.ExprStmt{X: &ast.UnaryExpr{Op: token.ARROW, X: simrtCall("R", sel, lit(i), ch)}}, Body: []ast.Stmt{setK(i)}})
			block = append(block, &ast.CommClause{Comm: &ast.ExprStmt{X: &ast.UnaryExpr{Op: token.ARROW, X: ch}}, Body: []ast.Stmt{setK(i)}})
		case *ast.AssignStmt:
			u := unparen(s.Rhs[0]).(*ast.UnaryExpr)
			prelude = append(prelude, &ast.AssignStmt{Lhs: []ast.Expr{ch}, Tok: token.DEFINE, Rhs: []ast.Expr{u.X}})
			rv := r.newTmp("r")
			prelude = append(prelude, &ast.AssignStmt{Lhs: []ast.Expr{rv}, Tok: token.DEFINE, Rhs: []ast.Expr{simrtCall("Zero", ch)}})
			lhs := []ast.Expr{rv}
			rhs := []ast.Expr{rv}
			if len(s.Lhs) == 2 {
				okv := r.newTmp("ok")
				prelude = append(prelude, &ast.AssignStmt{Lhs: []ast.Expr{okv}, Tok: token.DEFINE, Rhs: []ast.Expr{ast.NewIdent("false")}})
				lhs = append(lhs, okv)
				rhs = append(rhs, okv)
			}
			probe = append(probe, &ast.CommClause{Comm: &ast.AssignStmt{Lhs: lhs, Tok: token.ASSIGN, Rhs: []ast.Expr{&ast.UnaryExpr{Op: token.ARROW, X: simrtCall("R", sel, lit(i), ch)}}}, Body: []ast.Stmt{setK(i)}})
			block = append(block, &ast.CommClause{Comm: &ast.AssignStmt{Lhs: lhs, Tok: token.ASSIGN, Rhs: []ast.Expr{&ast.UnaryExpr{Op: token.ARROW, X: ch}}}, Body: []ast.Stmt{setK(i)}})
			body = append(body, &ast.AssignStmt{Lhs: s.Lhs, Tok: s.Tok, Rhs: rhs})
			// `_ = v`-style uses are not needed: the original would not compile with unused variables.
			allBlank := true
			for _, l := range s.Lhs {
				if id, ok := l.(*ast.Ident); !ok || id.Name != "_" {
					allBlank = false
				}
			}
			if allBlank {
				body = body[:0]
				for _, x := range rhs {
					body = append(body, &ast.AssignStmt{Lhs: []ast.Expr{ast.NewIdent("_")}, Tok: token.ASSIGN, Rhs: []ast.Expr{x}})
				}
			}
		default:
			r.fail(cc.Pos(), "unknown comm clause")
			return
		}
		body = append(body, cc.Body...)
		bodies = append(bodies, &ast.CaseClause{List: []ast.Expr{lit(i)}, Body: body})
	}
	// probe select default: advance
	probe = append(probe, &ast.CommClause{Comm: nil, Body: []ast.Stmt{
		&ast.IfStmt{Cond: simrtCall("SelNext", sel), Body: &ast.BlockStmt{List: []ast.Stmt{&ast.BranchStmt{Tok: token.GOTO, Label: label}}}},
	}})
	var stmts []ast.Stmt
	stmts = append(stmts, prelude...)
	stmts = append(stmts,
		&ast.AssignStmt{Lhs: []ast.Expr{sel}, Tok: token.DEFINE, Rhs: []ast.Expr{simrtCall("SelBegin", site, lit(nCases))}},
		&ast.AssignStmt{Lhs: []ast.Expr{k}, Tok: token.DEFINE, Rhs: []ast.Expr{&ast.UnaryExpr{Op: token.SUB, X: lit(1)}}},
		&ast.LabeledStmt{Label: label, Stmt: &ast.SelectStmt{Body: &ast.BlockStmt{List: probe}}},
	)
	if !hasDefault {
		stmts = append(stmts, &ast.IfStmt{
			Cond: &ast.BinaryExpr{X: k, Op: token.LSS, Y: lit(0)},
			Body: &ast.BlockStmt{List: []ast.Stmt{
				&ast.ExprStmt{X: simrtCall("SelBlock", sel)},
				// deferred post-gate: a blocked send case panics when the
				// channel is closed under it.
				&ast.ExprStmt{X: &ast.CallExpr{Fun: &ast.FuncLit{Type: &ast.FuncType{Params: &ast.FieldList{}}, Body: &ast.BlockStmt{List: []ast.Stmt{
					&ast.DeferStmt{Call: simrtCall("SelWake", sel)},
					&ast.SelectStmt{Body: &ast.BlockStmt{List: block}},
				}}}}},
			}},
		})
	}
	if !hasDefault {
		// keep the statement terminating when every case is: the last
		// communication case becomes the switch's default (k >= 0 here).
		bodies[len(bodies)-1].(*ast.CaseClause).List = nil
	}
	var sw ast.Stmt = &ast.SwitchStmt{Tag: k, Body: &ast.BlockStmt{List: bodies}}
	blk := &ast.BlockStmt{}
	if ls, ok := c.Parent().(*ast.LabeledStmt); ok {
		sw = &ast.LabeledStmt{Label: ls.Label, Stmt: sw}
		r.ours[blk] = true
	}
	stmts = append(stmts, sw)
	blk.List = stmts
	c.Replace(blk)
}
