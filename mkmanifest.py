#!/usr/bin/env python3
"""Regenerates MANIFEST.json from the table below (run after adding a check)."""
import json, os
V = os.path.dirname(os.path.abspath(__file__))
TECH = "deterministic simulation: seeded schedule + fault search over an AST-instrumented copy of /repo under testing/synctest"
CHECKS = {
 "C07": dict(cat="exploration", ref="§2 C07",
   text="Seeded search over schedules, configurations and cancel/close fault points of blocked Queue/Deque/Distributor operations; at true quiescence (no task can take a step) no operation may remain blocked whose condition holds, whose context is cancelled or whose container is closed. Sampling, not proof; every failure is a replayable minimised tape.",
   note="Trusts the simulator's model of sync.Mutex/Cond blocking (FIFO cond queue, no spurious wake-ups) and that one-task-at-a-time interleavings at synchronisation-operation granularity cover the behaviours of interest; quota-queue 'free capacity' is judged only at Len()==0.",
   tech=TECH + "; quiescence oracle"),
 "C14": dict(cat="exploration", ref="§2 C14",
   text="Seeded schedules of adders/doners, concurrent waiters with their own cancellable contexts, Num readers, reuse over rounds and Launch/DoTimes/Operation.Add/StartGroup families; every history is checked with porcupine against a counter model (a Wait that returned with a live context must linearize at counter 0; a negative Add must panic and change nothing) and at quiescence no waiter may be blocked at counter 0 or with a cancelled context.",
   note="Histories are capped at 60 operations; a waiter whose context was cancelled by the harness before it returned is treated as legitimately released (conservative).",
   tech=TECH + "; porcupine linearizability vs counter model + quiescence oracle"),
 "C05": dict(cat="exploration", ref="§2 C05",
   text="2-4 simulated clients issue Add/BlockingAdd/Remove/Wait/Len/Close and Distributor Send/Receive/Len on unlimited, hard-limit and soft-quota/burst-credit queues under seeded schedules with cancel and Close faults; every recorded history (unique values, invoke/return stamped in the simulator's total event order) is checked with porcupine against a sequential FIFO + admission model; operations returning a context error and operations still blocked at quiescence are no-ops.",
   note="The quota/credit arithmetic of the model is transcribed from the documentation comments in pubsub/queue.go and tracker.go (float64); a change to code and comment together is invisible. Histories <= 60 operations; porcupine timeout 20 s (Unknown = inconclusive).",
   tech=TECH + "; porcupine linearizability vs sequential FIFO/admission model"),
 "C06": dict(cat="exploration", ref="§2 C06",
   text="Same harness for Deque: Push/Pop/ForcePush/Wait/WaitPush at both ends, Len, Close, Distributor Send/Receive on unlimited, fixed-capacity and quota deques, cancel and Close faults; porcupine against a sequential double-ended queue with capacity (plain push on full fails without effect, Force push on full evicts exactly one from the opposite end, after Close pushes fail with ErrQueueClosed and pops report not-ok).",
   note="Force pushes are generated only for capacity/unlimited deques (the statement defines 'full' there). Runs with two or more same-side waiters can livelock inside the library (cond.Signal before every cond.Wait) and are then budget-inconclusive for liveness; their safety history is skipped.",
   tech=TECH + "; porcupine linearizability vs sequential deque model"),
 "C20": dict(cat="exploration", ref="§2 C20",
   text="One or two iterator tasks of every non-destructive form (Queue.Iterator/Producer; Deque Iterator, IteratorReverse, Producer, ProducerReverse, ProducerBlocking, ProducerReverseBlocking) step while other tasks add and (second family) remove items under seeded schedules, then the container is closed or the iterator contexts cancelled. Oracles: no panic; every yielded value was added; without removals the yielded sequence is a gap-free prefix of the add order, a blocked iterator at quiescence has seen every item present, blocking forms return io.EOF after Close having yielded everything and return after cancel, non-blocking forms end with io.EOF.",
   note="Reverse variants are fed with PushFront so that 'container order as seen by the iterator' equals add order. Two blocking Deque iterators can livelock inside the library (Signal before every Wait); those runs are budget-inconclusive.",
   tech=TECH + "; prefix-of-add-order and quiescence oracles"),
 "C13": dict(cat="exploration", ref="§1.7, §2 C13",
   text="The Go race detector (ThreadSanitizer) runs on the instrumented library under simulator-chosen schedules: 2-4 tasks call tape-chosen public methods of one shared Queue(+Distributor, iterators), Deque(+Distributors, six producers/iterators), fun.WaitGroup, erc.Collector (incl. using a Resolve()d error and an Iterator while others Add), adt.Map/Atomic/Synchronized/Once/Pool, synchronized dt.Set, and Lock/Once/Limit wrappers around callbacks that touch unsynchronised counters; a second family runs every drawn pair of methods as a two-task workload. The scheduler's own hand-offs are hidden from TSan (RaceDisable + go:norace in simrt), so it sees exactly the program's happens-before edges. Oracle: zero reports with a tychoish/fun frame on both access stacks.",
   note="Trusts ThreadSanitizer (no false positives; detects unordered conflicting accesses that a run executes). A report without a fun frame on both sides is treated as a harness error (exit 2). pubsub.Broker drivers are part of the C09 build-out.",
   tech="deterministic simulation in race mode: Go race detector under seeded one-task-at-a-time schedules over the AST-instrumented copy"),
 "C01": dict(cat="exploration", ref="§2 C01",
   text="Fault-free runs of every fan-out/fan-in construct (Split, ProcessParallel, itertool.ParallelForEach, itertool.Worker, Map, ParallelBuffer, MergeIterators, GenerateParallel, concurrent ReadOne on one channel iterator, Buffer) over inputs of length 0..12 from slice/channel/generator sources, 1..4 workers, buffers 0..3, user callbacks that yield 1-3 times, under seeded schedules; at quiescence the observed multiset must equal the input multiset and the sequence must equal it for Buffer and single-worker forms.",
   note="A run that does not terminate is C04's subject and is inconclusive here except for duplicates; the terminal error value of the consumers is C03's subject.",
   tech=TECH + "; multiset/sequence equality oracle"),
 "C04": dict(cat="fault_enumeration", ref="§2 C04",
   text="Every goroutine-backed construct (the C01 set plus Chain, MergeSlices, MergeSliceIterators, BufferedChannel, dt.Map and adt.Map iterators) is stopped by a separate task at a tape-chosen step in one of the modes exhaust / Close / cancel / Close-then-cancel / cancel-then-Close / Close twice, with per-consumer cut points 0..n+1, so that the stop races in-flight sends. At quiescence: the stop action returned, every consumer's ReadOne returned, a finite input ended in io.EOF, and the simulator's task table shows no live task spawned from a go statement inside tychoish/fun.",
   note="Callback-style constructs and BufferedChannel (a bare channel has no Close) are stopped by cancellation only. Abandoning an output without Close is documented as leaking and is not generated.",
   tech=TECH + "; stop-mode x cut-point fault matrix, quiescence + task-table leak oracle"),
 "C03": dict(cat="fault_enumeration", ref="§2 C03",
   text="ProcessParallel, ParallelForEach, itertool.Worker, Map and GenerateParallel under all 8 ContinueOnError/ContinueOnPanic/IncludeContextExpirationErrors combinations x ExcludedErrors {none, the injected error, an unrelated one} x default or erc.Collector collection x 1-4 workers, with one or two injected failures of kind plain / wrapped / panic(error|string|struct) / ErrIteratorSkip / io.EOF / returned context.Canceled at tape-chosen item positions and optional real cancellation, under seeded schedules. Oracle on the call log and the result R: nothing escapes as a panic; every reportable failure satisfies errors.Is(R, it) (ErrRecoveredPanic for panics); EOF, skip, context errors (unless included) and excluded errors are never reported; R is nil iff nothing reportable happened; continue modes process every item exactly once; in abort modes the failing worker processes nothing further and, counted from the moment its goroutine has exited, at most workers-1 further items start (GenerateParallel: a 300-call input is not drained).",
   note="The matrix is sampled per run from the tape (quick) rather than enumerated cell by cell; the evidence file reports which (construct, options, fault) cells were reached as distinct_states. When the consumer of a Map/Generate output is itself cancelled, failures that happen after its Close cannot be in the result and are not required. ErrCurrentOpAbort is not injected (the statement does not classify it).",
   tech=TECH + "; callback fault matrix x WorkerGroupConf, error-contract oracle on the call log"),
 "C15": dict(cat="exploration", ref="§2 C15",
   text="1-4 caller tasks x 1-3 calls each of every Once form (Worker/Operation/Producer/Processor/Handler/Future.Once, adt.Once Resolve and Do, adt.Mnemonize, ft.Once, ft.OnceDo), every Limit(n) form and every Lock form around a wrapped function that records enter/exit stamps and yields in the middle; oracles: one execution, no caller returns before its exit stamp, all callers see its value/error; exactly min(n, calls) executions and the last result afterwards; no two [enter, exit] intervals overlap. A second family checks that the waiters of Operation/Worker Signal, Launch, Background, StartGroup and Processor.Background return only after the background function's exit stamp and carry its error. Retry(n), Join and Pre/PostHook order are single-task reference checks run through the same tape/replay machinery.",
   note="The Retry/Join/hook sub-cases have one task and no faults: for them this is seeded generation against an independent reference, the simulator adds only replay and shrinking.",
   tech=TECH + "; invocation-counter / overlap-gauge / completion-stamp oracles"),
 "C08": dict(cat="exploration", ref="§2 C08",
   text="1-3 publishers x 1-4 messages (bursts or paced), 1-3 subscribers that subscribe after tape-chosen delays, receive continuously and (some) call Unsubscribe at a tape-chosen step but keep draining, over channel / unlimited Queue / unlimited Deque / bounded Queue / bounded Deque / LIFO brokers with ParallelDispatch, 1-3 dispatch workers and subscription buffers 0-2, under seeded schedules. Every configuration: each delivered value was published and no subscriber receives a publication twice. Lossless configurations at quiescence: every message published after Subscribe returned and whose Publish returned before Unsubscribe was called is delivered exactly once; with one dispatch worker every pair of subscribers agrees on the order of common messages and each publisher's order is kept.",
   note="The Unsubscribe window is read literally from the statement; the three resulting violations are listed as open known findings (not small to repair). Runs over Deque back-ends with two or more dispatch workers livelock inside Deque.wait and are budget-inconclusive (safety clauses are still judged on them).",
   tech=TECH + "; per-subscriber exactly-once / order oracle over recorded deliveries"),
 "C09": dict(cat="fault_enumeration", ref="§2 C09",
   text="The C08 workload plus Stats callers and faults: Stop or parent-context cancel at a tape-chosen step (idle, mid-dispatch, mid-publish, with backlog), caller-context cancellation inside Publish / Subscribe / Unsubscribe / Stats, Wait started before as well as after Stop, subscribers that stop receiving once Unsubscribe returned. While the broker is live and subscribers receive, quiescence must show no pending Publish/Subscribe/Unsubscribe/Stats and complete delivery; after Stop/cancel: Stop returned, Wait returned, every caller returned once its own context was cancelled, and no task spawned inside pubsub/fun is alive.",
   note="Same Deque livelock limitation as C08. The delivery clause for subscribers that unsubscribed belongs to C08 and is not re-judged here.",
   tech=TECH + "; fault families (stop/cancel/stats-cancel/wait-order) with quiescence and task-table oracles"),
 "C10": dict(cat="fault_enumeration", ref="§2 C10",
   text="A Service with harness phases whose outcomes are drawn per run from {Run: ok/error/panic} x {Shutdown: absent/ok/error/panic} x {Cleanup: absent/ok/error/panic} x {ErrorHandler present/absent} x termination mode {Run returns by itself, Close, parent cancel at a tape-chosen step}, with 1-3 concurrent starters, 1-2 waiters per successful start and extra closers, under seeded schedules (the two windows the property names - before the isRunning decision and before the completion stores - are ordinary gates). Oracle, a lifecycle automaton over the phase log: Run at most once; exactly one Start returns nil, the others ErrServiceAlreadyStarted/ErrServiceReturned; Shutdown once and only after the service context ended; Cleanup once, after Run and Shutdown returned; ErrorHandler at most once, after Cleanup, non-nil; a Wait invoked after a successful Start returns only after the last phase, carries every phase error and ErrRecoveredPanic, is nil otherwise, and Running() is false afterwards; no service goroutine survives.",
   note="'Shutdown only after the service context ended' can be judged only once Run has been handed that context. The outcome matrix is sampled from the tape, not enumerated cell by cell; reached cells are reported as distinct_states.",
   tech=TECH + "; phase outcome x termination mode matrix, lifecycle automaton over the phase call log"),
}
NA = [
 ("C16", "dt.List/dt.Stack are single-goroutine data structures: the property quantifies over operation sequences only; there is no schedule, clock, fault or interleaving for a simulator to own (pure model-based testing target)."),
 ("C17", "sorting/IsSorted/Heap are pure functions of the input list and comparator; nothing concurrent, timed or fault-prone to simulate."),
 ("C19", "hdrhist is integer bucket arithmetic, a pure function of (shape, recorded values); no lock, timer, callback or I/O to put behind a seam."),
]
m = {
 "version": 1,
 "setup_cmd": "./check build",
 "hooks": {
  "guard": "none in /repo: instrumentation is applied mechanically (siminstr) to a scratch copy of the working tree at check time",
  "enable": "./check <id> copies /repo's working tree to a scratch dir, rewrites go/chan/select/sync/atomic/map-range into verif/simrt calls, and builds the harness against that copy with go1.26.8",
  "baseline_off_cmd": "cd /repo && go test -mod=mod -vet=off -count=1 -timeout 25m ./...",
  "source_commits": [],
  "add_only": True,
 },
 "engines": [
  {"name": "simrt+siminstr+harness", "path": "/verif/simrt /verif/siminstr /verif/harness /verif/check",
   "serves_properties": sorted(CHECKS), "kind_free_text": "deterministic simulator: AST instrumenter, seeded one-task-at-a-time scheduler inside a testing/synctest bubble, choice tape with delta-debugging minimiser, per-property workloads and oracles"},
 ],
 "checks": [],
 "not_applicable": [{"property_id": p, "reason": r} for p, r in NA],
 "notes": "Exit codes: 0 held (KNOWN-FINDING lines for listed defects), 1 VIOLATION, 2 HARNESS-ERROR. known_findings.json lists genuine defects (open = suppressed by exact signature, fixed = repaired by a fix: commit in /repo, suppresses nothing).",
}
for pid in sorted(CHECKS):
    c = CHECKS[pid]
    m["checks"].append({
     "property_id": pid,
     "quick_cmd": "./check %s --tier quick" % pid,
     "thorough_cmd": "./check %s --tier thorough" % pid,
     "evidence_file": "/verif/evidence/%s.json" % pid,
     "replay_cmd_template": "./check replay {path}",
     "engine": "simrt+siminstr+harness",
     "level_claimed": {"category": c["cat"], "text": c["text"], "design_ref": c["ref"]},
     "level_note": c["note"],
     "technique": c["tech"],
    })
json.dump(m, open(os.path.join(V, "MANIFEST.json"), "w"), indent=1)
print("wrote MANIFEST.json with", len(m["checks"]), "checks")
