"""Determinism self-test and instrumentation-fidelity run (see DESIGN §1.6, §1.1)."""
import os, sys, json, tempfile, shutil, subprocess, time


def main(ck, args):
    props = (args.file or "C07").split(",")
    nproc = args.workers or 30
    nruns = args.runs or 300
    bad = 0
    for prop in props:
        binp = ck.build(race=(prop == "C13"))
        tmp = tempfile.mkdtemp(prefix="verif-self-", dir=os.environ.get("TMPDIR", "/var/tmp"))
        try:
            procs = []
            for i in range(nproc):
                gmp = [1, 4, 16][i % 3]
                outp = os.path.join(tmp, "d-%d.txt" % i)
                env = {"VERIF_PROP": prop, "VERIF_SEED0": "1000", "VERIF_NRUNS": str(nruns), "VERIF_OUT": outp,
                       "GOMAXPROCS": str(gmp), "VERIF_CHECKGID": "1" if i % 2 else "0"}
                procs.append((ck.worker(binp, "digests", env), outp, gmp))
                while sum(1 for p, _, _ in procs if p.poll() is None) >= 16:
                    time.sleep(0.05)
            ref = None
            for p, outp, gmp in procs:
                so, se = p.communicate()
                if p.returncode != 0 or not os.path.exists(outp):
                    print(so[-2000:], se[-4000:])
                    ck.die("selftest worker failed")
                lines = open(outp).read().splitlines()
                if ref is None:
                    ref = lines
                    continue
                if lines != ref:
                    for a, b in zip(ref, lines):
                        if a != b:
                            print("DIVERGENCE %s GOMAXPROCS=%d:\n  %s\n  %s" % (prop, gmp, a, b))
                            bad += 1
                            break
            print("selftest %s: %d processes x %d runs (GOMAXPROCS 1/4/16, gid check on/off): %s" % (prop, nproc, nruns, "identical" if not bad else "DIVERGED"))
        finally:
            shutil.rmtree(tmp, ignore_errors=True)
    if bad:
        ck.die("determinism self-test mismatch")
    sys.exit(0)


def fidelity(ck, args):
    """Run the repository's own tests against the instrumented copy in
    pass-through mode (no simulation active)."""
    ck.build_tools()
    scratch = tempfile.mkdtemp(prefix="verif-fid-", dir=os.environ.get("TMPDIR", "/var/tmp"))
    try:
        fun = os.path.join(scratch, "fun")
        subprocess.run(["rsync", "-a", "--exclude", ".git", ck.REPO + "/", fun + "/"], check=True)
        with open(os.path.join(fun, "go.mod"), "a") as f:
            f.write("\nrequire verif/simrt v0.0.0\nreplace verif/simrt => %s/simrt\n" % ck.VERIF)
        r = ck.run([os.path.join(ck.VERIF, "bin", "siminstr"), "-dir", fun], capture_output=True, text=True)
        if r.returncode != 0:
            print(r.stdout + r.stderr)
            ck.die("instrumentation failed")
        r = ck.run(["go", "test", "-vet=off", "-count=1", "-timeout", "25m", "./..."], cwd=fun, capture_output=True, text=True)
        fails = [l for l in r.stdout.splitlines() if l.startswith("--- FAIL") or l.startswith("FAIL")]
        print(r.stdout[-3000:])
        print("fidelity: exit %d, %d FAIL lines" % (r.returncode, len(fails)))
        sys.exit(0 if r.returncode == 0 else 2)
    finally:
        shutil.rmtree(scratch, ignore_errors=True)
